(* C18 — the Parquet reader's row-group buffer: what is held and what is requested, step by step.
   Same loop as Model/Chunks.v:parquet_from, observing the buffer instead of the chunks. *)
From Verif Require Import Prelude Chunks.

(* rows buffered right after _load_groups (the peak of each step) *)
Fixpoint parquet_peaks {A} (fuel s n cs : nat) (cache file : list (list A)) : list nat :=
  match fuel with
  | O => []
  | S f => if n <=? s then [] else
             let '(cache1, file1) := load_groups cs cache file in
             let '(chunk, cache2) := extract_chunk cs cache1 in
             cache_size cache1 :: parquet_peaks f (s + cs) n cs cache2 file1
  end.

(* number of row groups requested in each step *)
Fixpoint parquet_loads {A} (fuel s n cs : nat) (cache file : list (list A)) : list nat :=
  match fuel with
  | O => []
  | S f => if n <=? s then [] else
             let '(cache1, file1) := load_groups cs cache file in
             let '(chunk, cache2) := extract_chunk cs cache1 in
             (length file - length file1) :: parquet_loads f (s + cs) n cs cache2 file1
  end.

Definition parquet_buffer_trace {A} (cs : nat) (groups : list (list A)) : list nat :=
  let n := length (concat groups) in parquet_peaks n 0 n cs [] groups.
Definition parquet_load_trace {A} (cs : nat) (groups : list (list A)) : list nat :=
  let n := length (concat groups) in parquet_loads n 0 n cs [] groups.

(* checker for the tie: the request log of the real reader, grouped by delivered chunk, against the model *)
Definition c18_parquet_loads_case (cs : nat) (groups : list nat) (loads_per_chunk : list nat) : nat :=
  let rows := map (fun g => repeat 0%nat g) groups in
  code [nlist_eqb (parquet_load_trace cs rows) loads_per_chunk;
        forallb (fun p => p <? cs + fold_right Nat.max 0 groups) (parquet_buffer_trace cs rows)].

(* indices of the row groups requested in each step (off = groups requested so far) *)
Fixpoint parquet_reqs {A} (fuel s n cs off : nat) (cache file : list (list A)) : list (list nat) :=
  match fuel with
  | O => []
  | S f => if n <=? s then [] else
             let '(cache1, file1) := load_groups cs cache file in
             let '(chunk, cache2) := extract_chunk cs cache1 in
             let k := length file - length file1 in
             seq off k :: parquet_reqs f (s + cs) n cs (off + k) cache2 file1
  end.
Definition parquet_request_trace {A} (cs : nat) (groups : list (list A)) : list (list nat) :=
  let n := length (concat groups) in parquet_reqs n 0 n cs 0 [] groups.

(* ---------- the multiprocessing write loop (catalog/catalog.py:write_patches, non-MPI branch) ----------
     for chunk in reader:  pool.map(task, np.array_split(chunk, w))
   The reader stays in the calling process and is driven with the configured chunk size whatever the number
   of workers w; only the chunk it delivered is divided among the workers.  One step = (slice requested from
   the source, sizes of the w tasks of the Pool.map call). *)
Definition pool_steps (w n cs : nat) : list ((nat * nat) * list nat) :=
  map (fun se => (se, array_split_sizes (slice_len se) w)) (slices n cs).

(* variant (not the code): the chunk size adapted to the pool, python `cs += -cs % w` = next multiple of w *)
Definition round_up (cs w : nat) : nat := cs + (w - cs mod w) mod w.
Definition pool_steps_rounded (w n cs : nat) : list ((nat * nat) * list nat) :=
  pool_steps w n (round_up cs w).

(* checkers for the tie on the pool: sizes of the tasks of every Pool.map call *)
Definition c18_pool_tasks_agree (w n cs : nat) (tasks : list (list nat)) : bool :=
  list_eqb nlist_eqb (map snd (pool_steps w n cs)) tasks.
(* flags: c18_case's [agree; spec; passes] for the request log, then for the writing (= last) pass
   [tasks = model; every requested slice is handed to the pool completely, in the order requested] *)
Definition c18_pool_case (w n cs passes : nat) (log : list (list (nat * nat))) (tasks : list (list nat)) : nat :=
  code [forallb (c18_agree n cs) log; forallb (c18_spec n cs) log; length log =? passes;
        c18_pool_tasks_agree w n cs tasks;
        nlist_eqb (map (fold_right Nat.add 0) tasks) (map slice_len (last log []))].

(* Parquet on the pool: the chunks handed to Pool.map (lens = rows per call) *)
Definition c18_lens_bounded (cs : nat) (groups lens : list nat) : bool :=
  forallb (fun l => (1 <=? l) && (l <=? cs)) lens &&
  (fold_right Nat.add 0 lens =? fold_right Nat.add 0 groups).
Definition c18_tasks_agree (w : nat) (lens : list nat) (tasks : list (list nat)) : bool :=
  list_eqb nlist_eqb (map (fun l => array_split_sizes l w) lens) tasks.

(* ---------- reader history: the public reader object as a state machine ----------
   catalog/readers.py:DataChunkReader is its own iterator:
     __iter__ : _reset_iter_state(); return self
     __next__ : StopIteration when exhausted (state unchanged), otherwise advance the state and request
   so every use of the object (a peek next(iter(r)), an aborted for-loop, islice / zip previews, nested loops,
   get_probe = a complete pass, the loop of write_patches = a complete pass) is a word over three operations.
   The machine is generic in the state (offset for the data-frame / HDF5 / FITS / random readers; offset,
   row-group cursor and row-group cache for Parquet) and in the POLICY `rewinds` that says in which states
   iter() rewinds: the code rewinds always; `rewinds only when exhausted` is the variant refuted in
   Proofs/ChunksBufP.v. *)
Inductive rd_op := RdIter | RdNext (k : nat) | RdPass.

Section ReaderHistory.
  Context {St Rq : Type}.
  Context (init : St) (next : St -> option (St * Rq)) (rewinds : St -> bool).

  (* k calls of next(); a call on an exhausted reader raises StopIteration and changes nothing *)
  Fixpoint rd_nexts (k : nat) (st : St) : St * list Rq :=
    match k with
    | O => (st, [])
    | S k' => match next st with
              | None => (st, [])
              | Some (st1, r) => let '(st2, rs) := rd_nexts k' st1 in (st2, r :: rs)
              end
    end.
  Definition rd_iter (st : St) : St := if rewinds st then init else st.
  (* RdPass = iter() followed by next() until StopIteration (fuel = a bound on the number of chunks) *)
  Definition rd_step (fuel : nat) (st : St) (op : rd_op) : St * list Rq :=
    match op with
    | RdIter => (rd_iter st, [])
    | RdNext k => rd_nexts k st
    | RdPass => rd_nexts fuel (rd_iter st)
    end.
  (* what every operation of a history requests from the source, operation by operation *)
  Fixpoint rd_trace (fuel : nat) (st : St) (ops : list rd_op) : list (list Rq) :=
    match ops with
    | [] => []
    | op :: r => let '(st1, q) := rd_step fuel st op in q :: rd_trace fuel st1 r
    end.
  Fixpoint rd_state (fuel : nat) (st : St) (ops : list rd_op) : St :=
    match ops with
    | [] => st
    | op :: r => rd_state fuel (fst (rd_step fuel st op)) r
    end.
End ReaderHistory.

Definition rewinds_always {St} (_ : St) : bool := true.

(* --- the offset readers: state = _num_samples --- *)
Definition off_next (n cs off : nat) : option (nat * (nat * nat)) :=
  if n <=? off then None else Some (off + cs, (off, Nat.min (off + cs) n)).
(* the refuted policy: `if self._num_samples >= self.num_records: self._reset_iter_state()` *)
Definition off_rewinds_exhausted (n off : nat) : bool := n <=? off.

Definition off_trace (n cs : nat) (ops : list rd_op) : list (list (nat * nat)) :=
  rd_trace 0 (off_next n cs) rewinds_always n 0 ops.
Definition off_trace_lazy (n cs : nat) (ops : list rd_op) : list (list (nat * nat)) :=
  rd_trace 0 (off_next n cs) (off_rewinds_exhausted n) n 0 ops.

Definition is_pass (op : rd_op) : bool := match op with RdPass => true | _ => false end.

(* checker for the tie: log = the requests (clipped to n) observed during every operation of the history.
   flags: [model agrees operation by operation;
           every complete pass (whatever came before) requests every record once, in slices of 1..cs;
           no operation requests more than cs records at once (raw = unclipped length bound, from the harness);
           the records handed over by the passes / stored in the catalog are the records of the source] *)
Definition c18_hist_case (n cs : nat) (ops : list rd_op) (log : list (list (nat * nat))) (raw rows : bool) : nat :=
  code [list_eqb (list_eqb pair_eqb) (off_trace n cs ops) log;
        (length ops =? length log) &&
        forallb (fun ol => negb (is_pass (fst ol)) || c18_spec n cs (snd ol)) (combine ops log);
        raw && forallb (forallb (fun se => slice_len se <=? cs)) log;
        rows].
(* random reader: sizes of the generator calls during every operation *)
Definition c18_hist_sizes_case (n cs : nat) (ops : list rd_op) (sizes : list (list nat)) (rows : bool) : nat :=
  code [list_eqb nlist_eqb (map (map slice_len) (off_trace n cs ops)) sizes;
        (length ops =? length sizes) &&
        forallb (fun ol => negb (is_pass (fst ol)) ||
                           ((fold_right Nat.add 0 (snd ol) =? n) &&
                            forallb (fun l => (1 <=? l) && (l <=? cs)) (snd ol))) (combine ops sizes);
        forallb (forallb (fun l => l <=? cs)) sizes;
        rows].

(* --- the Parquet reader: state = (_num_samples, _group_idx, _group_cache, row groups not yet requested);
       one next() = _load_groups + _extract_chunk; request = (indices of the row groups read, chunk delivered) --- *)
Definition pq_state (A : Type) : Type := (nat * nat * list (list A) * list (list A))%type.
Definition pq_init {A} (groups : list (list A)) : pq_state A := (0, 0, [], groups).
Definition pq_next {A} (n cs : nat) (st : pq_state A) : option (pq_state A * (list nat * list A)) :=
  let '(s, off, cache, file) := st in
  if n <=? s then None else
    let '(cache1, file1) := load_groups cs cache file in
    let '(chunk, cache2) := extract_chunk cs cache1 in
    let k := length file - length file1 in
    Some ((s + cs, off + k, cache2, file1), (seq off k, chunk)).
(* the refuted policy leaves cursor and cache where they are, too *)
Definition pq_rewinds_exhausted {A} (n : nat) (st : pq_state A) : bool :=
  let '(s, _, _, _) := st in n <=? s.

Definition pq_trace {A} (cs : nat) (groups : list (list A)) (ops : list rd_op) : list (list (list nat * list A)) :=
  let n := length (concat groups) in
  rd_trace (pq_init groups) (pq_next n cs) rewinds_always n (pq_init groups) ops.
Definition pq_trace_lazy {A} (cs : nat) (groups : list (list A)) (ops : list rd_op) : list (list (list nat * list A)) :=
  let n := length (concat groups) in
  rd_trace (pq_init groups) (pq_next n cs) (pq_rewinds_exhausted n) n (pq_init groups) ops.

(* checker: per operation the row groups requested (reqs, flat) and the lengths of the chunks delivered
   (lens; None where the harness cannot see the chunks, i.e. inside write_patches).
   flags: [row-group requests = model, operation by operation; chunk lengths = model where observed;
           every complete pass requests every row group once in file order;
           rows handed over / stored = rows of the file] *)
Definition c18_pq_hist_case (cs : nat) (groups : list nat) (ops : list rd_op)
                            (reqs : list (list nat)) (lens : list (option (list nat))) (rows : bool) : nat :=
  let g := map (fun k => repeat 0%nat k) groups in
  let tr := pq_trace cs g ops in
  code [list_eqb nlist_eqb (map (fun q => concat (map fst q)) tr) reqs;
        (length tr =? length lens) &&
        forallb (fun ql => match snd ql with
                           | None => true
                           | Some l => nlist_eqb (map (fun r => length (snd r)) (fst ql)) l
                           end) (combine tr lens);
        (length ops =? length reqs) &&
        forallb (fun ol => negb (is_pass (fst ol)) || nlist_eqb (snd ol) (seq 0 (length groups))) (combine ops reqs);
        rows].

(* ---------------- the parameter that configures the chunk size: its VALUE, whatever its type ----------------
   readers.py: `self.chunksize = chunksize or CHUNKSIZE`.  What the caller hands over is reduced to its value:
   None (nothing / omitted) or Some v, v the integral value of a Python int, of a numpy integer of any width, of a
   bool (False = 0, True = 1).  A falsy value (nothing, 0) selects the default; every other value is the chunk size
   itself, so the requests of a pass are a function of the value alone. *)
Definition configured_cs (dflt : nat) (p : option nat) : nat :=
  match p with Some (S v) => S v | _ => dflt end.
Definition param_slices (dflt n : nat) (p : option nat) : list (nat * nat) := slices n (configured_cs dflt p).
(* the variant `keep the parameter only if it passes a test on its TYPE, else the default`: keeps = false for the
   types the test does not know *)
Definition configured_cs_typed (keeps : bool) (dflt : nat) (p : option nat) : nat :=
  if keeps then configured_cs dflt p else dflt.

(* the default of the library, CHUNKSIZE = 16_777_216: never evaluated (unary numbers); an input that is no longer than
   the chunk is requested in one slice whatever the chunk size is (Proofs/ChunksBufP.v:slices_capped), so the checkers
   evaluate the default as max 1 n *)
Definition default_chunksize : nat := N.to_nat 16777216%N.
Definition capped_cs (n : nat) (p : option nat) : nat :=
  match p with Some (S v) => S v | _ => Nat.max 1 n end.
(* a pass of logged requests against the parameter value *)
Definition c18_param_case (n : nat) (p : option nat) (passes : nat) (log : list (list (nat * nat))) : nat :=
  c18_case n (capped_cs n p) passes log.

(* inputs too long for unary numbers (a 16-bit chunk size needs more than 65535 records): input length and chunk size
   are multiples of k, the requests of the model are then the k-fold of those for n/k and cs/k
   (Proofs/ChunksBufP.v:slices_scale), and the harness hands over the logged requests divided by k *)
Definition scale_slice (k : nat) (se : nat * nat) : nat * nat := (k * fst se, k * snd se).


(* ---------- several readers alive at the same time: the product model ----------
   A process may hold several reader objects at once (a data and a random catalogue processed in lock-step, a second
   reader opened, restarted, probed or closed while the first is in the middle of a pass, a catalog created from another
   file in between).  The state of such a WORLD is the list of the states of its readers (None = not open); an operation
   names the reader it is applied to and changes that component only.  Reader k is the machine (init k, next k,
   rewinds k) of the section above, fuel k bounding the number of chunks of a pass. *)
Inductive life_op := LOpen | LClose | LDo (op : rd_op).

Fixpoint upd {A} (k : nat) (x : A) (l : list A) : list A :=
  match l, k with
  | [], _ => []
  | _ :: r, O => x :: r
  | y :: r, S k' => y :: upd k' x r
  end.

Section World.
  Context {St Rq : Type}.
  Context (init : nat -> St) (next : nat -> St -> option (St * Rq)) (rewinds : nat -> St -> bool) (fuel : nat -> nat).

  (* one reader object through its life: constructed (a new object, whatever was there), used, closed *)
  Definition slot_step (k : nat) (s : option St) (o : life_op) : option St * list Rq :=
    match o, s with
    | LOpen, _ => (Some (init k), [])
    | LClose, _ => (None, [])
    | LDo op, Some st => let '(st1, q) := rd_step (init k) (next k) (rewinds k) (fuel k) st op in (Some st1, q)
    | LDo _, None => (None, [])
    end.
  Fixpoint slot_trace (k : nat) (s : option St) (ops : list life_op) : list (list Rq) :=
    match ops with
    | [] => []
    | o :: r => let '(s1, q) := slot_step k s o in q :: slot_trace k s1 r
    end.
  Fixpoint slot_state (k : nat) (s : option St) (ops : list life_op) : option St :=
    match ops with
    | [] => s
    | o :: r => slot_state k (fst (slot_step k s o)) r
    end.

  (* the world: an operation on reader k changes component k only *)
  Definition w_step (w : list (option St)) (o : nat * life_op) : list (option St) * list Rq :=
    match nth_error w (fst o) with
    | None => (w, [])
    | Some s => let '(s1, q) := slot_step (fst o) s (snd o) in (upd (fst o) s1 w, q)
    end.
  Fixpoint w_trace (w : list (option St)) (ops : list (nat * life_op)) : list (list Rq) :=
    match ops with
    | [] => []
    | o :: r => let '(w1, q) := w_step w o in q :: w_trace w1 r
    end.
  Fixpoint w_state (w : list (option St)) (ops : list (nat * life_op)) : list (option St) :=
    match ops with
    | [] => w
    | o :: r => w_state (fst (w_step w o)) r
    end.
End World.

(* the operations addressed to reader k, and what was delivered in answer to them *)
Definition proj {O} (k : nat) (ops : list (nat * O)) : list O :=
  map snd (filter (fun o => fst o =? k) ops).
Definition outs_of {O Q} (k : nat) (ops : list (nat * O)) (tr : list Q) : list Q :=
  map snd (filter (fun oq => fst (fst oq) =? k) (combine ops tr)).

(* --- the readers of the library as ONE machine: what a next() requests (row groups; none for the offset readers)
       and which records it delivers (row numbers of the reader's own source) --- *)
Inductive rcfg :=
| COff (ids : bool) (n cs : nat)              (* data frame / HDF5 / FITS (ids = true), random generator (ids = false) *)
| CPq (cs : nat) (groups : list (list nat)).  (* Parquet: the rows of every row group *)
Definition u_n (c : rcfg) : nat := match c with COff _ n _ => n | CPq _ g => length (concat g) end.
Definition u_cs (c : rcfg) : nat := match c with COff _ _ cs => cs | CPq cs _ => cs end.
Definition u_rows (c : rcfg) : list nat := match c with COff _ n _ => seq 0 n | CPq _ g => concat g end.
Definition u_ids (c : rcfg) : bool := match c with COff ids _ _ => ids | CPq _ _ => true end.
Definition u_init (c : rcfg) : pq_state nat := match c with COff _ _ _ => (0, 0, [], []) | CPq _ g => pq_init g end.
Definition u_next (c : rcfg) (st : pq_state nat) : option (pq_state nat * (list nat * list nat)) :=
  match c with
  | COff _ n cs => let '(s, _, _, _) := st in
                   match off_next n cs s with
                   | None => None
                   | Some (s1, se) => Some ((s1, 0, [], []), ([], range se))
                   end
  | CPq cs g => pq_next (length (concat g)) cs st
  end.
Definition cfg_at (cfgs : list rcfg) (k : nat) : rcfg := nth k cfgs (COff true 0 1).
Definition uw_trace (cfgs : list rcfg) :=
  w_trace (fun k => u_init (cfg_at cfgs k)) (fun k => u_next (cfg_at cfgs k)) (fun _ => rewinds_always)
          (fun k => u_n (cfg_at cfgs k)).
Definition u_slot_trace (c : rcfg) :=
  slot_trace (fun _ => u_init c) (fun _ => u_next c) (fun _ => rewinds_always) (fun _ => u_n c) 0.
(* Parquet file given by the sizes of its row groups: rows numbered consecutively *)
Definition rows_of_sizes (sizes : list nat) : list (list nat) :=
  fst (fold_left (fun '(acc, s) g => (acc ++ [seq s g], s + g)) sizes ([], 0)).

(* --- the variant that is NOT the code: the row-group cache is one object shared by all Parquet readers of the process
       (every reader keeps its own offset and row-group cursor); rewinding any reader empties THE cache --- *)
Definition sh_slot (A : Type) : Type := (nat * nat * list (list A))%type.
Definition sh_world (A : Type) : Type := (list (list A) * list (sh_slot A))%type.
Section Shared.
  Context {A : Type}.
  Context (cfg : nat -> nat * list (list A)).     (* reader k: (chunk size, row groups of its file) *)
  Definition sh_n (k : nat) : nat := length (concat (snd (cfg k))).
  Definition sh_rewind (k : nat) (w : sh_world A) : sh_world A := ([], upd k (0, 0, snd (cfg k)) (snd w)).
  Definition sh_next (k : nat) (w : sh_world A) : option (sh_world A * (list nat * list A)) :=
    match nth_error (snd w) k with
    | None => None
    | Some (s, off, file) =>
        match pq_next (sh_n k) (fst (cfg k)) (s, off, fst w, file) with
        | None => None
        | Some ((s1, off1, cache1, file1), out) => Some ((cache1, upd k (s1, off1, file1) (snd w)), out)
        end
    end.
  Definition sh_step (w : sh_world A) (o : nat * rd_op) : sh_world A * list (list nat * list A) :=
    match snd o with
    | RdIter => (sh_rewind (fst o) w, [])
    | RdNext j => rd_nexts (sh_next (fst o)) j w
    | RdPass => rd_nexts (sh_next (fst o)) (sh_n (fst o)) (sh_rewind (fst o) w)
    end.
  Fixpoint sh_trace (w : sh_world A) (ops : list (nat * rd_op)) : list (list (list nat * list A)) :=
    match ops with
    | [] => []
    | o :: r => let '(w1, q) := sh_step w o in q :: sh_trace w1 r
    end.
  Definition sh_init (readers : nat) : sh_world A := ([], map (fun k => (0, 0, snd (cfg k))) (seq 0 readers)).
End Shared.

(* --- checker for the tie.  obs = per operation of the interleaving what the addressed reader was SEEN to do: for every
       next() the row groups it requested and the rows it delivered (numbered within the reader's OWN source; a record of
       another source carries a number beyond every source); None where the harness cannot see the chunks (get_probe,
       catalog creation).
       stream_ok is the statement of the property for one reader, evaluated on the observation alone (no model): between
       two rewinds the delivered rows are 0, 1, 2, ... in order, in chunks of 1..cs, never beyond n; a next() that
       delivered nothing and a complete pass come only when all n were delivered; the rows requested and not yet
       delivered stay below cs + the largest row group. --- *)
Definition obs_t : Type := option (list (list nat * list nat)).
Definition gsize (c : rcfg) (i : nat) : nat := match c with COff _ _ _ => 0 | CPq _ g => length (nth i g []) end.
Definition maxg (c : rcfg) : nat := match c with COff _ _ _ => 0 | CPq _ g => fold_right Nat.max 0 (map (@length nat) g) end.
(* state: rows delivered since the last rewind, rows requested since the last rewind; flags: stream, buffer *)
Fixpoint nexts_ok (c : rcfg) (pos loaded : nat) (outs : list (list nat * list nat)) : (nat * nat) * (bool * bool) :=
  match outs with
  | [] => ((pos, loaded), (true, true))
  | (reqs, rows) :: r =>
      let len := length rows in
      let loaded1 := loaded + fold_right Nat.add 0 (map (gsize c) reqs) in
      let here := (1 <=? len) && (len <=? u_cs c) && (pos + len <=? u_n c) &&
                  (negb (u_ids c) || nlist_eqb rows (seq pos len)) in
      let buf := (loaded1 - pos <? u_cs c + maxg c) || (loaded1 =? 0) in
      let '(st, (a, b)) := nexts_ok c (pos + len) loaded1 r in
      (st, (here && a, buf && b))
  end.
Fixpoint stream_ok (c : rcfg) (pos loaded : nat) (l : list (life_op * obs_t)) : bool * bool :=
  match l with
  | [] => (true, true)
  | (o, ob) :: r =>
      match o, ob with
      | LDo (RdNext j), Some outs =>
          let '((pos1, loaded1), (a, b)) := nexts_ok c pos loaded outs in
          let done := (length outs <=? j) && ((j <=? length outs) || (pos1 =? u_n c)) in
          let '(a2, b2) := stream_ok c pos1 loaded1 r in (a && done && a2, b && b2)
      | LDo RdPass, Some outs =>
          let '((pos1, loaded1), (a, b)) := nexts_ok c 0 0 outs in
          let '(a2, b2) := stream_ok c pos1 loaded1 r in (a && (pos1 =? u_n c) && a2, b && b2)
      | LDo RdPass, None => stream_ok c (u_n c) (u_n c) r
      | LDo (RdNext _), None => stream_ok c pos loaded r
      | _, _ => stream_ok c 0 0 r
      end
  end.
Definition out_eqb (ids : bool) (a b : list nat * list nat) : bool :=
  if ids then nlist_eqb (snd a) (snd b) else length (snd a) =? length (snd b).
(* flags: [rows delivered = the world model, operation by operation (where seen);
           row groups requested = the world model (where seen);
           every reader's stream satisfies the property; every reader's buffer bound] *)
Definition c18_world_case (cfgs : list rcfg) (ops : list (nat * life_op)) (obs : list obs_t) : nat :=
  let tr := uw_trace cfgs (repeat None (length cfgs)) ops in
  let seen := combine ops (combine tr obs) in
  let per := map (fun k => stream_ok (cfg_at cfgs k) 0 0 (combine (proj k ops) (outs_of k ops obs))) (seq 0 (length cfgs)) in
  code [(length ops =? length obs) &&
        forallb (fun x => match snd (snd x) with
                          | None => true
                          | Some outs => list_eqb (out_eqb (u_ids (cfg_at cfgs (fst (fst x))))) (fst (snd x)) outs
                          end) seen;
        forallb (fun x => match snd (snd x) with
                          | None => true
                          | Some outs => list_eqb nlist_eqb (map fst (fst (snd x))) (map fst outs)
                          end) seen;
        forallb fst per;
        forallb snd per].
(* the same for one reader driven alone (the control run of the harness) *)
Definition c18_solo_case (c : rcfg) (ops : list life_op) (obs : list obs_t) : nat :=
  c18_world_case [c] (map (fun o => (0, o)) ops) obs.

(* two files of 10 and 7 rows (the rows of file 1 numbered from 100), row groups of 3, both read in chunks of 4 *)
Definition sh_example (k : nat) : nat * list (list nat) :=
  match k with
  | 0 => (4, [[0;1;2];[3;4;5];[6;7;8];[9]])
  | _ => (4, [[100;101;102];[103;104;105];[106]])
  end.
Definition sh_stream (k : nat) (ops : list (nat * rd_op)) : list nat :=
  concat (map snd (concat (outs_of k ops (sh_trace sh_example (sh_init sh_example 2) ops)))).
Definition ops_of (k : nat) (ops : list (nat * rd_op)) : list (nat * rd_op) := filter (fun o => fst o =? k) ops.



(* ---------- a pass in which loads FAIL ----------
   The source may raise while a chunk is loaded (MemoryError, OSError, TimeoutError, ... out of h5py / pyarrow / astropy /
   pandas / the random generator).  A pass is then a PARTIAL function of the source: it ends (StopIteration), or the
   exception reaches the caller after some chunks were delivered.  `fails a` says whether the a-th load ATTEMPTED in the
   pass fails.  Two policies keep the statement of the property and are modelled by one function: b = 0 retries left is
   the code (DataChunkReader.__next__ does not catch anything: the exception propagates); b > 0 repeats THE SAME request
   (the state is the one before the failed attempt) up to b times in the pass. *)
Inductive fres (Rq : Type) : Type :=
| FDone (out : list Rq)       (* the pass ended with StopIteration; out = everything delivered *)
| FRaised (out : list Rq)     (* the exception of a failed load reached the caller; out = delivered before it *)
| FFuel (out : list Rq).      (* the bound on the number of attempted loads was reached (not an outcome of a reader) *)
Arguments FDone {Rq} out.
Arguments FRaised {Rq} out.
Arguments FFuel {Rq} out.
Definition f_out {Rq} (r : fres Rq) : list Rq := match r with FDone o | FRaised o | FFuel o => o end.
Definition f_cons {Rq} (x : Rq) (r : fres Rq) : fres Rq :=
  match r with FDone o => FDone (x :: o) | FRaised o => FRaised (x :: o) | FFuel o => FFuel (x :: o) end.
Definition f_raised {Rq} (r : fres Rq) : bool := match r with FRaised _ => true | _ => false end.

Section FaultyPass.
  Context {St Rq : Type} (next : St -> option (St * Rq)) (fails : nat -> bool).
  (* fuel bounds the loads attempted, b = retries left, a = loads attempted so far *)
  Fixpoint f_pass (fuel b : nat) (st : St) (a : nat) : fres Rq :=
    match fuel with
    | O => match next st with None => FDone [] | Some _ => FFuel [] end
    | S f => match next st with
             | None => FDone []
             | Some (st1, r) =>
                 if fails a
                 then match b with
                      | O => FRaised []                      (* propagate *)
                      | S b' => f_pass f b' st (S a)          (* the same state: the same request again *)
                      end
                 else f_cons r (f_pass f b st1 (S a))
             end
    end.
End FaultyPass.

(* the variant that is NOT the code (offset readers): a failed load is answered by halving the chunk size and rewinding
   the position - which __next__ had already advanced by the OLD chunk size - by the NEW one; the pass goes on from the
   middle of the failed chunk.  State: (chunk size, start of the next request). *)
Fixpoint f_pass_halve (fails : nat -> bool) (fuel n cs off a : nat) : fres (nat * nat) :=
  match fuel with
  | O => if n <=? off then FDone [] else FFuel []
  | S f => if n <=? off then FDone [] else
             if fails a
             then (if cs <=? 1 then FRaised []
                   else let cs' := Nat.max 1 (cs / 2) in f_pass_halve fails f n cs' (off + cs - cs') (S a))
             else f_cons (off, Nat.min (off + cs) n) (f_pass_halve fails f n cs (off + cs) (S a))
  end.

(* --- checker for the tie.
   fa      = the attempts (numbered within the pass: chunks delivered so far + loads failed so far) at which the harness
             made the source raise
   raised  = the exception reached the caller of the pass
   rows    = the rows of every delivered chunk (None where the chunks are not seen: get_probe, catalog creation)
   att     = what the source was asked, load by load, with `true` where that load failed
   The requests of a healthy pass: slices (data frame / HDF5 / FITS), sizes (random generator), row groups (Parquet). *)
Definition u_requests (c : rcfg) : list (nat * nat) :=
  match c with
  | COff true n cs => slices n cs
  | COff false n cs => map (fun se => (0, slice_len se)) (slices n cs)
  | CPq _ g => map (fun i => (i, S i)) (seq 0 (length g))
  end.
(* every load asks for what the healthy pass asks next; a failed load does not advance; Some left = requests never made *)
Fixpoint attempts_left (healthy : list (nat * nat)) (att : list ((nat * nat) * bool)) : option (list (nat * nat)) :=
  match att with
  | [] => Some healthy
  | (r, failed) :: rest =>
      match healthy with
      | [] => None
      | h :: hs => if pair_eqb r h then attempts_left (if failed then healthy else hs) rest else None
      end
  end.
Definition fails_at (fa : list nat) (i : nat) : bool := existsb (Nat.eqb i) fa.
Definition rows_eqb (ids : bool) (a b : list nat) : bool := if ids then nlist_eqb a b else length a =? length b.
Definition fres_eqb (ids : bool) (r : fres (list nat * list nat)) (raised : bool) (rows : list (list nat)) : bool :=
  match r with
  | FDone out => negb raised && list_eqb (rows_eqb ids) (map snd out) rows
  | FRaised out => raised && list_eqb (rows_eqb ids) (map snd out) rows
  | FFuel _ => false
  end.
(* the statement on the observation alone: the delivered chunks are the records of the source from the start, in order,
   every chunk exactly as long as requested (cs, the last one the remainder); returns the position reached *)
Fixpoint stream_exact (c : rcfg) (pos : nat) (rows : list (list nat)) : bool * nat :=
  match rows with
  | [] => (true, pos)
  | r :: t =>
      let len := length r in
      let ok := (1 <=? len) && (len =? Nat.min (u_cs c) (u_n c - pos)) &&
                (negb (u_ids c) || nlist_eqb r (firstn len (skipn pos (u_rows c)))) in
      let '(b, p) := stream_exact c (pos + len) t in (ok && b, p)
  end.
(* flags: [delivered chunks and outcome = the model under one of its policies (0 .. all failures retried);
           the statement: a pass that ended delivered the source exactly once in the requested chunks, a pass that
           raised delivered a prefix of that;
           every load asked for the request of the healthy pass that was due, none was skipped] *)
Definition c18_fault_case (c : rcfg) (fa : list nat) (raised : bool) (rows : option (list (list nat)))
                          (att : list ((nat * nat) * bool)) : nat :=
  let fuel := u_n c + length fa + 1 in
  code [match rows with
        | None => true
        | Some rw => existsb (fun b => fres_eqb (u_ids c) (f_pass (u_next c) (fails_at fa) fuel b (u_init c) 0) raised rw)
                             (seq 0 (S (length fa)))
        end;
        match rows with
        | None => true
        | Some rw => let '(ok, pos) := stream_exact c 0 rw in ok && (raised || (pos =? u_n c))
        end;
        match attempts_left (u_requests c) att with
        | None => false
        | Some lft => raised || match lft with [] => true | _ => false end
        end].
