(* C01 - what a measurement is documented to IGNORE.

   Objects as the catalogs hold them, one field per column a catalog may carry:
     aw    weight column      (None = the catalog has no weight column: every object weighs 1)
     ared  redshift column    (None = the catalog has no redshift column)
     aextra  any further columns of the input table (never read)
   The redshift column matters for a BINNED sample only (reference sample and its randoms; both
   samples of an autocorrelation): build_trees digitizes it with the configured edges and closed
   side, objects outside the binning belong to no bin.  The UNBINNED sample (unknown sample and its
   randoms of a cross-correlation) is counted with ALL its objects: a redshift column it happens to
   carry, whatever it holds (negative flags such as -99, zeros, values outside the binning, huge
   values), must not matter, nor must any further column.

   [classify] turns such a catalog into the objects of Model/PairCount.v (bin index computed HERE,
   by np.digitize's rule, not taken from the harness), so that the selection [sel], the cells
   [count_cell] / [spec_cell] and the stored weight sums of the existing model apply unchanged.
   [selk keep] is the variant that drops objects by a test on the redshift column before the
   trees are built (binned and unbinned alike) - refuted in Proofs/PairIgnoredP.v.

   No proofs in this file. *)
From Verif Require Import Prelude PairCount.
Open Scope Q_scope.

Record aobj := { ax : Z; ay : Z; az : Z; aw : option Q; ared : option Q; apatch : nat;
                 aextra : list Q }.

Definition weight_of (w : option Q) : Q := match w with Some q => q | None => 1 end.

(* np.digitize(z, edges, right): length of the maximal prefix of edges lying below z
   (strictly below for right = True, i.e. closed = right: bins (lo, hi]) *)
Definition passes (right : bool) (e z : Q) : bool := if right then Qltb e z else Qleb e z.
Fixpoint digit (right : bool) (edges : list Q) (z : Q) : nat :=
  match edges with
  | [] => 0%nat
  | e :: r => if passes right e z then S (digit right r z) else 0%nat
  end.
Definition bin_of (edges : list Q) (right : bool) (r : option Q) : nat :=
  match r with Some z => digit right edges z | None => 0%nat end.

Definition to_obj (edges : list Q) (right : bool) (o : aobj) : obj :=
  {| ox := ax o; oy := ay o; oz := az o; ow := weight_of (aw o);
     obin := bin_of edges right (ared o); opatch := apatch o |}.
Definition classify (edges : list Q) (right : bool) (C : list aobj) : list obj :=
  map (to_obj edges right) C.

(* everything the unbinned sample contributes with: position, weight (1 without a weight column),
   patch *)
Definition core (o : aobj) : Z * Z * Z * Q * nat := (ax o, ay o, az o, weight_of (aw o), apatch o).
Definition strip (o : obj) : obj :=
  {| ox := ox o; oy := oy o; oz := oz o; ow := ow o; obin := 0; opatch := opatch o |}.

(* the selection of one tree: patch, and bin (None = the single unbinned tree) *)
Definition asel (edges : list Q) (right : bool) (C : list aobj) (patch : nat) (bin : option nat) : list obj :=
  sel (classify edges right C) patch bin.

(* variant: objects failing a test on their redshift column are dropped before the tree(s) of a
   patch are built *)
Definition selk (keep : option Q -> bool) (edges : list Q) (right : bool) (C : list aobj)
           (patch : nat) (bin : option nat) : list obj :=
  sel (classify edges right (filter (fun o => keep (ared o)) C)) patch bin.

(* ---------- correspondence checkers ---------- *)
(* one tree obtained from the implementation (AngularTree / build_trees / BinnedTrees.build /
   Catalog.build_trees; bin = None: built without binning) against a second one:
   flag0 model counts = implementation, flag1 pair sum over ALL selected objects = implementation,
   flag2 number of records, flag3 sum of weights (both trees) *)
Definition c01_ign_tree_case (edges : list Q) (right : bool)
           (C : list aobj) (p : nat) (bin : option nat) (D : list aobj) (q : nat) (bin' : option nat)
           (cfg : bincfg) (impl : list Q) (nrec nrec' : nat) (sw sw' : Q) : nat :=
  let A := asel edges right C p bin in
  let B := asel edges right D q bin' in
  let exact := match balpha cfg with None => true | Some _ => false end in
  code [ qlist_ok exact (ppp cfg A B) impl;
         qlist_ok exact (ppp_spec cfg A B) impl;
         (length A =? nrec)%nat && (length B =? nrec')%nat;
         Qeqb (sumw A) sw && Qeqb (sumw B) sw' ].

(* end to end: the catalogs as created (columns), the configured edges and closed side *)
Definition c01_ign_e2e_case (edges : list Q) (right : bool) (auto binned2 : bool) (C1 C2 : list aobj)
           (cfgs : list bincfg) (ns np : nat) (dist : list (list Q)) (rad : list Q) (M : Q)
           (impl_counts : list (list (list (list Q)))) (sw1 sw2 : list (list Q)) : nat :=
  c01_e2e_case auto binned2 (classify edges right C1) (classify edges right C2) cfgs ns np dist rad M
               impl_counts sw1 sw2.
