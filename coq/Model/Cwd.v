(* C01 / C05 — relative cache paths and the working directory.  A relative path is resolved by the process that opens the
   file, against that process's working directory at that moment.  The library forks its worker processes inside every
   parallel section (they inherit the caller's present directory); a variant keeps one pool of workers alive, which keep
   the directory they were forked in. *)
From Coq Require Import List Arith Bool.
Import ListNotations.

Section Cwd.
  Context {D : Type}.                                     (* what a cache holds *)
  Definition disk := nat -> nat -> option D.              (* directory -> relative name -> content *)

  Inductive op := Chdir (d : nat) | Measure (name : nat) (workers : nat).
  (* state: the caller's directory; the directory the persistent pool was forked in (None = no pool yet) *)
  Record st := { cwd : nat; pool_cwd : option nat }.

  (* fresh workers per section: every process resolves against the caller's present directory *)
  Definition step_fresh (fsys : disk) (s : st) (o : op) : st * option (option D) :=
    match o with
    | Chdir d => ({| cwd := d; pool_cwd := pool_cwd s |}, None)
    | Measure name _ => (s, Some (fsys (cwd s) name))
    end.
  (* persistent pool: one worker in the calling process (workers <= 1) resolves against the present directory,
     pool workers against the directory at the time of the first parallel section *)
  Definition step_pool (fsys : disk) (s : st) (o : op) : st * option (option D) :=
    match o with
    | Chdir d => ({| cwd := d; pool_cwd := pool_cwd s |}, None)
    | Measure name w =>
        if Nat.leb w 1 then (s, Some (fsys (cwd s) name))
        else let pc := match pool_cwd s with Some d => d | None => cwd s end in
             ({| cwd := cwd s; pool_cwd := Some pc |}, Some (fsys pc name))
    end.

  Fixpoint run (step : st -> op -> st * option (option D)) (s : st) (ops : list op) : list (option D) :=
    match ops with
    | [] => []
    | o :: r => let (s', out) := step s o in
                match out with Some v => v :: run step s' r | None => run step s' r end
    end.

  (* the specification: each measurement reads the cache of that name in the directory the caller is in *)
  Fixpoint spec (fsys : disk) (d : nat) (ops : list op) : list (option D) :=
    match ops with
    | [] => []
    | Chdir d' :: r => spec fsys d' r
    | Measure name _ :: r => fsys d name :: spec fsys d r
    end.
End Cwd.
