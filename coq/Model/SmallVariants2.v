(* More single decisions (C17: selection by an index list keeps the order of the list; C12: a stored zero is a value). *)
From Coq Require Import List Arith Bool.
Import ListNotations.

(* ---------- C17: x.patches[idx] ---------- *)
Definition select {A} (d : A) (idx : list nat) (l : list A) : list A := map (fun i => nth i l d) idx.
(* variant: through a boolean mask - the entries come out in ascending position, each once *)
Definition select_mask {A} (d : A) (idx : list nat) (l : list A) : list A :=
  map (fun i => nth i l d) (filter (fun i => existsb (Nat.eqb i) idx) (seq 0 (length l))).

(* ---------- C12: restoring a stored weight sum ---------- *)
Definition restore_sum (stored : nat) (count : nat) : nat := stored.
(* variant `stored or count`: a stored 0 is taken for "not given" *)
Definition restore_sum_or (stored : nat) (count : nat) : nat := if stored =? 0 then count else stored.
