(* C06 — side effects of jobs.  Under MPI the jobs of iter_unordered run on the WORKER ranks (the root only dispatches); a job
   that writes a file (Patch.__init__ computes and writes meta.yml) writes it from whichever rank runs it.  A writer that is
   guarded by "on the root rank only" is therefore never executed for those files. *)
From Coq Require Import List Arith Bool.
Import ListNotations.

Definition written (guard : nat -> bool) (assign : nat -> nat) (tasks : list nat) : list nat :=
  filter (fun k => guard (assign k)) tasks.
Definition unguarded (_ : nat) : bool := true.
Definition root_only (rank : nat) : bool := rank =? 0.
