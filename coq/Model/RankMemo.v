(* C06 - ranks are separate PROCESSES that live across several library calls.

   A world of ranks shares ONE file system (the cache directories) but every rank owns PRIVATE
   process state.  The state that matters for the property is what a rank believes the trees of a
   patch to be.  The model: tree files are numbers, the content of a tree file is a version number
   (a version = the data in the cache + the binning the trees were built with); events of a history

     MBuild r f v   rank r (re)builds the trees of file f, they now hold version v
     MDrop f        the cache of f is created anew (overwrite): its trees are gone
     MRead r f      rank r reads the trees of f (as it does for every patch pair it counts)

   and three ways a rank may read:

     PNone       every read unpickles the file (the library as it is)
     PPrivate    a per-rank memo file -> trees, filled by reads, consulted WITHOUT looking at the
                 file; only the rank that rebuilds drops its own entry (no other rank can know)
     PValidated  a per-rank memo whose entries remember the generation stamp of the file they
                 were read from and are used only while the file still carries that stamp

   The disk carries a stamp per file (a counter that every build advances: generation / inode /
   mtime+size / content hash).  A read of a file without trees fails for every policy (the binning
   file that marks trees as valid is looked at first).

   No proofs here (Proofs/RankMemoP.v); everything is executable. *)
From Verif Require Import Prelude.
Open Scope nat_scope.

Inductive mev : Type :=
| MBuild (r f v : nat)
| MDrop (f : nat)
| MRead (r f : nat).

Inductive policy : Type := PNone | PPrivate | PValidated.

Definition upd {A : Type} (m : nat -> A) (k : nat) (a : A) : nat -> A :=
  fun x => if x =? k then a else m x.
Definition upd2 {A : Type} (m : nat -> nat -> A) (r f : nat) (a : A) : nat -> nat -> A :=
  fun x y => if (x =? r) && (y =? f) then a else m x y.

(* disk: file -> (stamp, version); memo: rank -> file -> (stamp, version) *)
Record mst : Type := mk_mst {
  disk : nat -> option (nat * nat);
  memo : nat -> nat -> option (nat * nat);
  clock : nat
}.

Definition minit : mst := mk_mst (fun _ => None) (fun _ _ => None) 0.

Definition mload (s : mst) (r f sd vd : nat) : mst :=
  mk_mst (disk s) (upd2 (memo s) r f (Some (sd, vd))) (clock s).

(* one event: new state and, for a read, what the rank gets (None = no trees) *)
Definition mstep (p : policy) (s : mst) (e : mev) : mst * option (option nat) :=
  match e with
  | MBuild r f v =>
      (mk_mst (upd (disk s) f (Some (clock s, v)))
              (match p with PPrivate => upd2 (memo s) r f None | _ => memo s end)
              (S (clock s)), None)
  | MDrop f => (mk_mst (upd (disk s) f None) (memo s) (clock s), None)
  | MRead r f =>
      match disk s f with
      | None => (s, Some None)
      | Some (sd, vd) =>
          match p with
          | PNone => (s, Some (Some vd))
          | PPrivate =>
              match memo s r f with
              | Some (_, vm) => (s, Some (Some vm))
              | None => (mload s r f sd vd, Some (Some vd))
              end
          | PValidated =>
              match memo s r f with
              | Some (sm, vm) => if sm =? sd then (s, Some (Some vm)) else (mload s r f sd vd, Some (Some vd))
              | None => (mload s r f sd vd, Some (Some vd))
              end
          end
      end
  end.

(* what the reads of a history return, in order *)
Fixpoint mreads (p : policy) (s : mst) (evs : list mev) : list (option nat) :=
  match evs with
  | [] => []
  | e :: t =>
      match snd (mstep p s e) with
      | Some x => x :: mreads p (fst (mstep p s e)) t
      | None => mreads p (fst (mstep p s e)) t
      end
  end.

(* SPEC: every read returns the version the file holds NOW, whoever built it, whoever reads *)
Fixpoint spec_reads (cur : nat -> option nat) (evs : list mev) : list (option nat) :=
  match evs with
  | [] => []
  | MBuild _ f v :: t => spec_reads (upd cur f (Some v)) t
  | MDrop f :: t => spec_reads (upd cur f None) t
  | MRead _ f :: t => cur f :: spec_reads cur t
  end.

Definition none_yet : nat -> option nat := fun _ => None.

(* the same history carried out by ONE process (the single-process run of the same script) *)
Definition to_single (e : mev) : mev :=
  match e with
  | MBuild _ f v => MBuild 0 f v
  | MDrop f => MDrop f
  | MRead _ f => MRead 0 f
  end.
Definition single (evs : list mev) : list mev := map to_single evs.

Definition on_rank (r : nat) (e : mev) : Prop :=
  match e with
  | MBuild r' _ _ => r' = r
  | MDrop _ => True
  | MRead r' _ => r' = r
  end.

(* ---- correspondence checker (harness/props/c06_procworld.py, shards Cases_C06M) ----
   n = world size; evs = the (re)builds a history of library calls performs and the reads of
   `probe` steps, rank by rank; obs = what each read returned, as a version number (0 = no trees;
   the harness names the version by comparing what the rank read with the trees of every content
   the cache path ever had, computed from the generating data).
   flag 1: history malformed (a rank outside the world, numbers of reads differ)
   flag 2: some rank read something else than the current version *)
Definition enc (o : option nat) : nat := match o with None => 0 | Some v => v end.
Definition ev_ok (n : nat) (e : mev) : bool :=
  match e with
  | MBuild r _ v => (r <? n) && (0 <? v)
  | MDrop _ => true
  | MRead r _ => r <? n
  end.
Definition c06_memo_case (n : nat) (evs : list mev) (obs : list nat) : nat :=
  let model := map enc (mreads PNone minit evs) in
  code [ forallb (ev_ok n) evs && (length model =? length obs) ; nlist_eqb model obs ].
