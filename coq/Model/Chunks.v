(* Model of the chunk cursor of the readers (catalog/readers.py):
     DataChunkReader.__next__  +  DataFrameReader/FitsReader/HDFReader._get_next_chunk
     RandomReader._get_next_chunk (sizes only)
     ParquetReader._load_groups / _extract_chunk  (row-group deque)
   and of np.array_split and utils.misc.groupby.
   Executable definitions only; proofs are in Proofs/ChunksP.v. *)
From Verif Require Import Prelude.
Open Scope nat_scope.

(* --- __next__: while num_samples < n: num_samples += cs; yield data[end-cs:end] --- *)
(* python slicing clips the end of the slice to n *)
Fixpoint slices_from (fuel s n cs : nat) : list (nat * nat) :=
  match fuel with
  | O => []
  | S f => if n <=? s then [] else (s, Nat.min (s + cs) n) :: slices_from f (s + cs) n cs
  end.
(* fuel n suffices for cs >= 1; cs = 0 is rejected by the code path (chunksize or CHUNKSIZE) *)
Definition slices (n cs : nat) : list (nat * nat) := slices_from n 0 n cs.

Definition range (se : nat * nat) : list nat := seq (fst se) (snd se - fst se).
Definition slice_len (se : nat * nat) : nat := snd se - fst se.

(* RandomReader: probe_size = cs - max(0, num_samples - n) *)
Definition random_sizes (n cs : nat) : list nat := map slice_len (slices n cs).

(* --- list slicing helpers --- *)
Definition take {A} (k : nat) (l : list A) := firstn k l.
Definition drop {A} (k : nat) (l : list A) := skipn k l.
Definition sub {A} (se : nat * nat) (l : list A) : list A := firstn (snd se - fst se) (skipn (fst se) l).

Definition chunks {A} (cs : nat) (l : list A) : list (list A) :=
  map (fun se => sub se l) (slices (length l) cs).

(* --- ParquetReader: the row-group cache --- *)
Definition cache_size {A} (cache : list (list A)) : nat := length (concat cache).

(* _load_groups: append groups from the file while the cache holds < cs rows *)
Fixpoint load_groups {A} (cs : nat) (cache : list (list A)) (file : list (list A))
  : list (list A) * list (list A) :=
  match file with
  | [] => (cache, [])
  | g :: rest => if cache_size cache <? cs then load_groups cs (cache ++ [g]) rest
                 else (cache, file)
  end.

(* _extract_chunk: pop groups until >= cs rows are collected (or cache empty) *)
Fixpoint pop_groups {A} (cs acc : nat) (cache : list (list A)) : list (list A) * list (list A) :=
  match cache with
  | [] => ([], [])
  | g :: rest => if acc <? cs
                 then let '(taken, lft) := pop_groups cs (acc + length g) rest in (g :: taken, lft)
                 else ([], cache)
  end.

Definition extract_chunk {A} (cs : nat) (cache : list (list A)) : list A * list (list A) :=
  let '(taken, lft) := pop_groups cs 0 cache in
  let oversized := concat taken in
  let remainder := skipn cs oversized in
  (firstn cs oversized, match remainder with [] => lft | _ => remainder :: lft end).

(* the reader loop: num_samples bookkeeping as in __next__ (n = metadata.num_rows) *)
Fixpoint parquet_from {A} (fuel s n cs : nat) (cache file : list (list A)) : list (list A) :=
  match fuel with
  | O => []
  | S f => if n <=? s then [] else
             let '(cache1, file1) := load_groups cs cache file in
             let '(chunk, cache2) := extract_chunk cs cache1 in
             chunk :: parquet_from f (s + cs) n cs cache2 file1
  end.
Definition parquet_chunks {A} (cs : nat) (groups : list (list A)) : list (list A) :=
  let n := length (concat groups) in
  parquet_from n 0 n cs [] groups.
(* note: the file readers first set chunksize = min(n, cs) but DataReader.__init__ then
   overwrites it with the requested value, so the effective chunk size is cs *)

(* --- np.array_split(l, k): first (n mod k) parts of size n/k+1, the rest n/k --- *)
Fixpoint split_sizes (sizes : list nat) {A} (l : list A) : list (list A) :=
  match sizes with
  | [] => []
  | s :: r => firstn s l :: split_sizes r (skipn s l)
  end.
Definition array_split_sizes (n k : nat) : list nat :=
  map (fun i => n / k + (if i <? n mod k then 1 else 0)) (seq 0 k).
Definition array_split {A} (k : nat) (l : list A) : list (list A) :=
  split_sizes (array_split_sizes (length l) k) l.

(* --- utils.misc.groupby(keys, values): one group per distinct key, ascending --- *)
Fixpoint insert_key (k : nat) (l : list nat) : list nat :=
  match l with
  | [] => [k]
  | x :: r => if k <? x then k :: l else if k =? x then l else x :: insert_key k r
  end.
Definition sorted_keys (ks : list nat) : list nat := fold_right insert_key [] ks.

Definition groupby {A} (key : A -> nat) (l : list A) : list (nat * list A) :=
  map (fun k => (k, filter (fun x => key x =? k) l)) (sorted_keys (map key l)).

Fixpoint lookup {A} (p : nat) (m : list (nat * list A)) : list A :=
  match m with
  | [] => []
  | (k, v) :: r => if k =? p then v else lookup p r
  end.

(* --- DataReader.get_probe: indices kept chunk by chunk ---
   idx_keep (integers, may go negative after shifting) ; per chunk of length len:
     drop negatives; take those < len; shift all by -len *)
Definition probe_step (len : Z) (idx : list Z) : list Z * list Z :=
  let nonneg := filter (fun i => (0 <=? i)%Z) idx in
  (filter (fun i => (i <? len)%Z) nonneg, map (fun i => (i - len)%Z) nonneg).
Fixpoint probe_run (lens : list Z) (off : Z) (idx : list Z) : list Z :=
  match lens with
  | [] => []
  | len :: r => let '(here, idx') := probe_step len idx in
                map (fun i => (i + off)%Z) here ++ probe_run r (off + len)%Z idx'
  end.

(* ---------- correspondence checkers (evaluated by the harness, not used in proofs) ---------- *)
Definition pair_eqb (a b : nat * nat) : bool := (fst a =? fst b) && (snd a =? snd b).

(* C18: one pass of logged requests (start, stop already clipped to n) *)
Definition c18_agree (n cs : nat) (reqs : list (nat * nat)) : bool :=
  list_eqb pair_eqb (slices n cs) reqs.
Definition c18_spec (n cs : nat) (reqs : list (nat * nat)) : bool :=
  nlist_eqb (concat (map range reqs)) (seq 0 n) &&
  forallb (fun se => (1 <=? slice_len se) && (slice_len se <=? cs)) reqs.
(* flags: [agree; spec] for every pass, then the number of passes *)
Definition c18_case (n cs passes : nat) (log : list (list (nat * nat))) : nat :=
  code [forallb (c18_agree n cs) log; forallb (c18_spec n cs) log; length log =? passes].

Fixpoint isort_insert (k : nat) (l : list nat) : list nat :=
  match l with [] => [k] | x :: r => if k <=? x then k :: l else x :: isort_insert k r end.
Definition isort (l : list nat) : list nat := fold_right isort_insert [] l.

(* random reader: sizes of the generator calls *)
Definition c16_sizes_agree (n cs : nat) (sizes : list nat) : bool := nlist_eqb (random_sizes n cs) sizes.

(* parquet: the reader's chunks for a row-group layout *)
Definition c02_parquet_agree (cs : nat) (groups : list nat) (chunk_lens : list nat) : bool :=
  let rows := fst (fold_left (fun '(acc, s) g => (acc ++ [seq s g], s + g)) groups ([], 0)) in
  nlist_eqb (map (@length nat) (parquet_chunks cs rows)) chunk_lens.
