(* C02, "coordinates converted to radian when given in degrees, exact to rounding": the checker the
   harness evaluates on (degree input, stored radian value) pairs.  Soundness: Proofs/Deg2RadP.v. *)
From Verif Require Import Prelude Sphere.
Open Scope Q_scope.

(* degrees -> radian "exact to rounding": the stored value lies within relative 2^-51 of x * pi / 180,
   tested against the proven rational enclosure pi_lo < PI < pi_hi *)
Definition eps51 : Q := 1 # 2251799813685248.
Definition d2r_lo (x : Q) : Q := if Qleb 0 x then x * pi_lo / 180 * (1 - eps51) else x * pi_hi / 180 * (1 + eps51).
Definition d2r_hi (x : Q) : Q := if Qleb 0 x then x * pi_hi / 180 * (1 + eps51) else x * pi_lo / 180 * (1 - eps51).
Definition c02_deg2rad_case (x s : Q) : nat := code [Qleb (d2r_lo x) s && Qleb s (d2r_hi x)].

