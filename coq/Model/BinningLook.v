(* C10, calls that are supposed to only LOOK, made between two measurements with the SAME configuration object:
     correlation/corrdata.py: SampledData.plot      x = binning.edges | binning.mids, shifted by xoffset
     binning.py:              Binning.edges (the stored ndarray), .left / .right (slices = views of it),
                              .mids / .dz (computed: always new arrays), Binning.copy()
     redshifts.py:            HistData.from_catalog stores config.binning.copy(); the pair-count containers, CorrFunc,
                              CorrFunc.sample() and RedshiftData carry config.binning.binning itself
   The membership rule applies to the edges the configuration was CREATED with.  Python arrays are mutable objects: an
   accessor either hands out the stored array itself (or a view of it) or a new array, and `x += d` updates whatever x
   refers to, while `x = x + d` makes a new array.  Modelled here with a heap of arrays: array 0 holds the edges of the
   configuration, a handle is (address, window), every later measurement reads array 0.
   Executable definitions only; proofs are in Proofs/BinningLookP.v. *)
From Verif Require Import Prelude Binning.
Open Scope Q_scope.

Definition heap := list (list Q).
(* what Python holds after `x = binning.<accessor>`: the array and the window (offset, length) of it that x spans *)
Definition handle := (nat * (nat * nat))%type.
Definition lstate := (heap * list handle)%type.

Inductive acc := AEdges | ALeft | ARight | AMids | ADz.

Fixpoint diffs (l : list Q) : list Q :=
  match l with a :: ((b :: _) as t) => (b - a) :: diffs t | _ => [] end.
(* the numbers the accessor shows *)
Definition acc_value (a : acc) (e : list Q) : list Q :=
  match a with
  | AEdges => e | ALeft => removelast e | ARight => tl e
  | AMids => midpoints e | ADz => diffs e
  end.
(* the part of the stored array an accessor that does NOT copy hands out; mids and dz are computed from the edges,
   their result is a new array whatever the accessor's discipline *)
Definition acc_window (a : acc) (e : list Q) : option (nat * nat) :=
  match a with
  | AEdges => Some (0, length e)%nat
  | ALeft => Some (0, length e - 1)%nat
  | ARight => Some (1, length e - 1)%nat
  | AMids | ADz => None
  end.

(* in-place updates of an array: x += d, x *= f, x[k] = v, x.sort() *)
Inductive wr := WAdd (d : Q) | WMul (f : Q) | WSet (k : nat) (v : Q) | WSort.
Fixpoint qinsert (x : Q) (l : list Q) : list Q :=
  match l with [] => [x] | y :: r => if Qleb x y then x :: l else y :: qinsert x r end.
Definition qsort (l : list Q) : list Q := fold_right qinsert [] l.
Definition wr_apply (w : wr) (l : list Q) : list Q :=
  match w with
  | WAdd d => map (fun x => x + d) l
  | WMul f => map (fun x => x * f) l
  | WSet k v => upd l k v
  | WSort => qsort l
  end.

Definition window (off len : nat) (l : list Q) : list Q := firstn len (skipn off l).
Definition write_window (off len : nat) (f : list Q -> list Q) (l : list Q) : list Q :=
  firstn off l ++ f (window off len l) ++ skipn (off + len) l.

Definition arr (hp : heap) (ad : nat) : list Q := nth ad hp [].
Definition hvalue (hp : heap) (h : handle) : list Q := window (fst (snd h)) (snd (snd h)) (arr hp (fst h)).

(* the calls.  `src` = the array that holds the edges of the Binning the call is made on (0: the configuration's own
   Binning, or any result that carries that very object);  `alias` = the accessor hands out the stored memory *)
Inductive lop :=
  | LGet (src : nat) (a : acc) (alias : bool)      (* x = binning.<a>: a new handle *)
  | LWrite (h : nat) (w : wr)                      (* in-place update through the h-th handle *)
  | LFresh (h : nat) (w : wr)                      (* y = x + d, y = np.sort(x) ...: a NEW array and a handle to it *)
  | LLook                                          (* repr, ==, len, to_dict, to_file, pickle ...: reads only *)
  | LPlot (src : nat) (inplace alias step : bool) (xoffset : Q).
      (* SampledData.plot: x = edges (step) | mids (otherwise);  x = x + xoffset  |  x += xoffset (inplace) *)

Definition alloc (v : list Q) (st : lstate) : lstate :=
  (fst st ++ [v], snd st ++ [(length (fst st), (0%nat, length v))]).
Definition lget (src : nat) (a : acc) (alias : bool) (st : lstate) : lstate :=
  let e := arr (fst st) src in
  match (if alias then acc_window a e else None) with
  | Some win => (fst st, snd st ++ [(src, win)])
  | None => alloc (acc_value a e) st
  end.
Definition lwrite (h : nat) (w : wr) (st : lstate) : lstate :=
  match nth_error (snd st) h with
  | Some (ad, (off, len)) => (upd (fst st) ad (write_window off len (wr_apply w) (arr (fst st) ad)), snd st)
  | None => st
  end.
Definition lfresh (h : nat) (w : wr) (st : lstate) : lstate :=
  match nth_error (snd st) h with
  | Some hd => alloc (wr_apply w (hvalue (fst st) hd)) st
  | None => st
  end.
(* x is a local variable of plot(): its handle is gone when the call returns, what it did to the heap stays *)
Definition lplot (src : nat) (inplace alias step : bool) (xoffset : Q) (st : lstate) : lstate :=
  if inplace
  then (fst (lwrite (length (snd st)) (WAdd xoffset) (lget src (if step then AEdges else AMids) alias st)), snd st)
  else st.

Definition lstep (op : lop) (st : lstate) : lstate :=
  match op with
  | LGet src a alias => lget src a alias st
  | LWrite h w => lwrite h w st
  | LFresh h w => lfresh h w st
  | LLook => st
  | LPlot src inplace alias step xo => lplot src inplace alias step xo st
  end.
Definition lrun (ops : list lop) (st : lstate) : lstate := fold_left (fun s op => lstep op s) ops st.

Definition linit (edges : list Q) : lstate := ([edges], []).
Definition stored (st : lstate) : list Q := arr (fst st) 0.
(* the edges every later measurement with the same configuration object bins by *)
Definition edges_after (edges : list Q) (ops : list lop) : list Q := stored (lrun ops (linit edges)).

(* copying accessors: nothing that is handed out is the stored memory *)
Definition op_copying (op : lop) : bool :=
  match op with
  | LGet _ _ alias => negb alias
  | LPlot _ inplace alias _ _ => negb (inplace && alias)
  | _ => true
  end.
(* no in-place update at all *)
Definition op_nowrite (op : lop) : bool :=
  match op with
  | LWrite _ _ => false
  | LPlot _ inplace _ _ _ => negb inplace
  | _ => true
  end.

(* ---------- correspondence checker (evaluated by the harness, not used in proofs) ----------
   one history: a configuration created with (cr, edges); calls that only look; then, with the SAME configuration object,
   the three consumers are observed (per patch trees, histogram, sum_weights of a measurement) and the configuration is
   asked what it reports (rep_cr, rep_edges).
   `ops` is the WHAT-IF reading of the history used for classification only: every plot call written with an in-place
   shift of what the accessor hands out, aliasing exactly where the harness saw shared memory (np.shares_memory).
   flags: 0 closed side reported = created        1 edges reported = created
          2 trees = rule on the CREATED edges     3 histogram = rule on the CREATED edges
          4 measurement sum_weights = rule on the CREATED edges
          5 trees / histogram / measurement mutually consistent
          6 (classification) reported edges = edges_after edges ops: the change is the one in-place updates of aliased
            accessor results produce
          7 (classification) trees and histogram follow the rule on the REPORTED binning
          8 hypotheses (created edges strictly increasing, at least two) *)
Definition c10_look_case (cr hasw : bool) (edges : list Q) (ops : list lop) (patches : list (list obj))
    (rep_cr : bool) (rep_edges : list Q)
    (impl_trees : list (option (list tree))) (impl_hist : option (list Q))
    (impl_meas : option (list (list Q))) : nat :=
  code [
    Bool.eqb cr rep_cr;
    qlist_eqb rep_edges edges;
    list_eqb (opt_eqb trees_eqb) impl_trees (map (fun p => Some (spec_trees hasw cr edges p)) patches);
    match impl_hist with Some h => qlist_eqb h (spec_hist hasw cr edges patches) | None => true end;
    match impl_meas with Some m => qmat_eqb m (spec_sum_weights hasw cr edges patches) | None => true end;
    consistent hasw (nbins edges) impl_trees impl_hist impl_meas;
    qlist_eqb rep_edges (edges_after edges ops);
    list_eqb (opt_eqb trees_eqb) impl_trees (map (fun p => Some (spec_trees hasw rep_cr rep_edges p)) patches) &&
      match impl_hist with Some h => qlist_eqb h (spec_hist hasw rep_cr rep_edges patches) | None => true end;
    increasingb edges && (2 <=? length edges)%nat
  ].
