(* C09 — catalog creation is fail-stop.

   Model of catalog/catalog.py: write_patches_unthreaded (sequential, a function) and the
   multiprocessing write_patches (a transition system: the main process and the writer process
   are two deterministic components, they interleave arbitrarily and meet only at the queue, at
   `join` and at the directory), followed by load_patches.

   Abstractions: the input is the list of its chunks (one label per chunk); the writer appends the
   chunk to the target directory when it processes it (buffersize = -1: every dictionary is flushed);
   `patch_ids.bin` is the last thing written (CatalogWriter.finalize); a directory opens as a
   catalog iff it holds patch_ids.bin (read_patch_ids).  A fault is a single event: kind x chunk
   position x place.  Faults of the writer's init that come from the pre-existing path (exists
   without overwrite, regular file, unusable location) are part of the scenario (`pre`, `overwrite`).

   Two instances: `cur` is the code as it stands, `fix` the repaired algorithm the theorems of
   Proofs/FailStopP.v are about.  No proofs in this file. *)
From Verif Require Import Prelude.
Open Scope nat_scope.

(* ---------- scenario ---------- *)
Inductive place := InReader | InWorker | WriterInit | WriterFinal.
Inductive fkind := NonFinite | UnequalLen | MissingCol | IdRange | Injected | MkdirFails.
Record fault := { where_ : place; at_chunk : nat; kind : fkind }.

(* the target path before / during / after the call *)
Inductive target :=
| TAbsent                       (* does not exist, parent usable *)
| TNoParent                     (* does not exist and cannot be created (unusable location) *)
| TFile                         (* a regular file *)
| TDir (other : bool)           (* a directory: holds unrelated content? *)
       (recs : list nat)        (*   chunks of catalog data written into it, in order *)
       (ids : bool).            (*   patch_ids.bin present *)

(* what a returned catalog holds: the records and whether every patch carries its own centre *)
Definition data := (list nat * bool)%type.

Record scen := {
  input : list nat;             (* the chunks of the input, in order *)
  flt : option fault;
  pre : target;                 (* state of the cache path before the call *)
  overwrite : bool;
  early : bool;                 (* the call fails before the pipeline starts: no patch method
                                   (PatchMode.determine), reader constructor error *)
  empty_centre : bool           (* patch_centers holds a centre no record is nearest to *)
}.

(* the five places where the repaired algorithm differs from the current one *)
Record impl := {
  abort_on_error : bool;        (* main loop in try/finally: an abort token is put when it raises
                                   (cur: nothing is put, the sentinel only on the normal path) *)
  check_exit : bool;            (* the writer's exit code is checked after join *)
  guarded_rmtree : bool;        (* overwrite removes the target only if it holds patch_ids.bin *)
  idset_check : bool;           (* load_patches compares the id set with the centres; on mismatch
                                   it removes patch_ids.bin and raises (cur: zip ids with centres) *)
  finalize_on_error : bool      (* CatalogWriter.__exit__ finalizes even when the body raised *)
}.
Definition v_cur : impl := {| abort_on_error := false; check_exit := false; guarded_rmtree := false;
                            idset_check := false; finalize_on_error := true |}.
Definition v_fix : impl := {| abort_on_error := true; check_exit := true; guarded_rmtree := true;
                            idset_check := true; finalize_on_error := false |}.

Inductive outcome := Return (d : data) | Raise | Hang.

(* ---------- faults ---------- *)
(* chunk at which the main loop raises (reader: DataChunk.create; worker: re-raised by pool.map) *)
Definition mfault (sc : scen) : option nat :=
  match flt sc with
  | Some f => match where_ f with
              | InReader | InWorker => if at_chunk f <? length (input sc) then Some (at_chunk f) else None
              | _ => None
              end
  | None => None
  end.
Definition is_fault_chunk (sc : scen) (c : nat) : bool :=
  match mfault sc with Some k => k =? c | None => false end.
Definition wfault_init (sc : scen) : bool :=
  match flt sc with Some f => match where_ f with WriterInit => true | _ => false end | None => false end.
Definition wfault_final (sc : scen) : bool :=
  match flt sc with Some f => match where_ f with WriterFinal => true | _ => false end | None => false end.

(* ---------- directory effects ---------- *)
Definition openable (d : target) : bool := match d with TDir _ _ true => true | _ => false end.
Definition append_rec (d : target) (x : nat) : target :=
  match d with TDir o r i => TDir o (r ++ [x]) i | _ => d end.
Definition set_ids (d : target) : target := match d with TDir o r _ => TDir o r true | _ => d end.

(* CatalogWriter.__init__: exists? -> overwrite ? rmtree : raise; mkdir.  (new state, succeeded) *)
Definition init_dir (v : impl) (sc : scen) (d : target) : target * bool :=
  let mk := if wfault_init sc then (TAbsent, false) else (TDir false [] false, true) in
  match d with
  | TAbsent => mk
  | TNoParent => (TNoParent, false)                 (* mkdir raises *)
  | TFile => (TFile, false)                         (* no overwrite: FileExistsError; overwrite: rmtree
                                                       of a regular file raises / not a catalog *)
  | TDir _ _ ids =>
      if overwrite sc then
        if guarded_rmtree v && negb ids then (d, false) else mk
      else (d, false)
  end.

(* load_patches on the directory as it is now *)
Definition load (v : impl) (sc : scen) (d : target) : outcome * target :=
  match d with
  | TDir o r true =>
      if empty_centre sc then
        if idset_check v then (Raise, TDir o r false) else (Return (r, false), d)
      else (Return (r, true), d)
  | _ => (Raise, d)
  end.

(* ---------- sequential pipeline ---------- *)
Definition seq_run (v : impl) (sc : scen) : outcome * target :=
  if early sc then (Raise, pre sc) else
  let (d0, ok) := init_dir v sc (pre sc) in
  if negb ok then (Raise, d0) else
  match mfault sc with
  | Some c => let d1 := fold_left append_rec (firstn c (input sc)) d0 in
              (Raise, if finalize_on_error v then set_ids d1 else d1)
  | None => let d1 := fold_left append_rec (input sc) d0 in
            if wfault_final sc then (Raise, d1) else load v sc (set_ids d1)
  end.

(* ---------- parallel pipeline ---------- *)
Inductive mainpc := MStart | MChunk (c : nat) | MPut | MJoin (pending : bool) | MLoad
                  | MRet (d : data) | MExc.
Inductive wpc := WNot | WInit | WLoop | WFinal | WExit (ok : bool).
Inductive qmsg := Msg (d : nat) | Sentinel | Abort.
Record pst := { mp : mainpc; wp : wpc; qu : list qmsg; dk : target;
                snt : list qmsg (* history: everything the main process has put so far *) }.

Definition init (sc : scen) : pst :=
  {| mp := MStart; wp := WNot; qu := []; dk := pre sc; snt := [] |}.

Definition set_mp (s : pst) (x : mainpc) : pst :=
  {| mp := x; wp := wp s; qu := qu s; dk := dk s; snt := snt s |}.
Definition put (s : pst) (x : mainpc) (e : qmsg) : pst :=
  {| mp := x; wp := wp s; qu := qu s ++ [e]; dk := dk s; snt := snt s ++ [e] |}.

Definition step_main (v : impl) (sc : scen) (s : pst) : option pst :=
  match mp s with
  | MStart =>
      if early sc then Some (set_mp s MExc)
      else Some {| mp := MChunk 0; wp := WInit; qu := qu s; dk := dk s; snt := snt s |}
  | MChunk c =>
      if c <? length (input sc) then
        if is_fault_chunk sc c then
          (* the exception leaves the loop; WriterProcess.__exit__ joins *)
          Some (if abort_on_error v then put s (MJoin true) Abort else set_mp s (MJoin true))
        else Some (put s (MChunk (S c)) (Msg (nth c (input sc) 0)))
      else Some (set_mp s MPut)
  | MPut => Some (put s (MJoin false) Sentinel)
  | MJoin pending =>
      match wp s with
      | WExit ok =>
          if pending then Some (set_mp s MExc)
          else if check_exit v && negb ok then Some (set_mp s MExc)
          else Some (set_mp s MLoad)
      | _ => None                                   (* join blocks until the child has exited *)
      end
  | MLoad =>
      let (o, d') := load v sc (dk s) in
      Some {| mp := match o with Return d => MRet d | _ => MExc end;
              wp := wp s; qu := qu s; dk := d'; snt := snt s |}
  | MRet _ | MExc => None
  end.

Definition step_writer (v : impl) (sc : scen) (s : pst) : option pst :=
  match wp s with
  | WNot => None
  | WInit =>
      let (d', ok) := init_dir v sc (dk s) in
      Some {| mp := mp s; wp := if ok then WLoop else WExit false; qu := qu s; dk := d'; snt := snt s |}
  | WLoop =>
      match qu s with
      | [] => None                                  (* get blocks on the empty queue *)
      | Msg d :: r => Some {| mp := mp s; wp := WLoop; qu := r; dk := append_rec (dk s) d; snt := snt s |}
      | Sentinel :: r => Some {| mp := mp s; wp := WFinal; qu := r; dk := dk s; snt := snt s |}
      | Abort :: r => Some {| mp := mp s; wp := WExit false; qu := r; dk := dk s; snt := snt s |}
      end
  | WFinal =>
      if wfault_final sc then Some {| mp := mp s; wp := WExit false; qu := qu s; dk := dk s; snt := snt s |}
      else Some {| mp := mp s; wp := WExit true; qu := qu s; dk := set_ids (dk s); snt := snt s |}
  | WExit _ => None
  end.

Definition pstep (v : impl) (sc : scen) (s s' : pst) : Prop :=
  step_main v sc s = Some s' \/ step_writer v sc s = Some s'.
Definition step_cur := pstep v_cur.
Definition step_fix := pstep v_fix.

Inductive reach (v : impl) (sc : scen) : pst -> Prop :=
| reach_init : reach v sc (init sc)
| reach_step s s' : reach v sc s -> pstep v sc s s' -> reach v sc s'.

Definition final (s : pst) : bool := match mp s with MRet _ | MExc => true | _ => false end.
Definition stuck (v : impl) (sc : scen) (s : pst) : Prop :=
  final s = false /\ forall s', ~ pstep v sc s s'.
Definition stuckb (v : impl) (sc : scen) (s : pst) : bool :=
  negb (final s) && match step_main v sc s, step_writer v sc s with None, None => true | _, _ => false end.

(* executable run: at step k the policy says which component is tried first *)
Fixpoint run_state (v : impl) (sc : scen) (pol : nat -> bool) (fuel : nat) (s : pst) : pst :=
  match fuel with
  | 0 => s
  | S f =>
      let a := if pol f then step_main v sc s else step_writer v sc s in
      let b := if pol f then step_writer v sc s else step_main v sc s in
      match a with
      | Some s' => run_state v sc pol f s'
      | None => match b with Some s' => run_state v sc pol f s' | None => s end
      end
  end.

(* a bound on the length of every execution *)
Definition psize (sc : scen) (s : pst) : nat :=
  (match mp s with
   | MStart => 2 * length (input sc) + 16
   | MChunk c => 2 * (length (input sc) - c) + 10
   | MPut => 8 | MJoin _ => 5 | MLoad => 2 | MRet _ | MExc => 0
   end)
  + length (qu s)
  + (match wp s with WNot | WInit => 4 | WLoop => 3 | WFinal => 2 | WExit _ => 0 end).
Definition fuel_for (sc : scen) : nat := 2 * length (input sc) + 21.

Definition classify (v : impl) (sc : scen) (s : pst) : option (outcome * target) :=
  match mp s with
  | MRet d => Some (Return d, dk s)
  | MExc => Some (Raise, dk s)
  | _ => if stuckb v sc s then Some (Hang, dk s) else None     (* None: out of fuel *)
  end.
Definition run (v : impl) (sc : scen) (pol : nat -> bool) : option (outcome * target) :=
  classify v sc (run_state v sc pol (fuel_for sc) (init sc)).

Definition pol_main (_ : nat) := true.
Definition pol_writer (_ : nat) := false.
Definition pol_alt (k : nat) := Nat.even k.

(* ---------- the property statement, evaluated on an observation ---------- *)
Definition is_some {A} (o : option A) : bool := match o with Some _ => true | None => false end.

(* the call has to raise *)
Definition must_raise (sc : scen) : bool :=
  early sc || is_some (mfault sc) || wfault_init sc || wfault_final sc || empty_centre sc ||
  match pre sc with
  | TAbsent => false
  | TNoParent => true                               (* unusable cache location *)
  | TFile => true                                   (* any other existing path raises *)
  | TDir _ _ ids => negb (overwrite sc) || negb ids (* exists without permission / not a catalog *)
  end.
(* the pre-existing path has to be left exactly as it was *)
Definition must_stay (sc : scen) : bool :=
  match pre sc with
  | TAbsent => false
  | TNoParent | TFile => true
  | TDir _ _ ids => negb (overwrite sc) || negb ids
  end.

Inductive retkind := RSame | RForeign | ROther.
Inductive obs := ORet (k : retkind) (centres_ok : bool) | ORaise | OHang.

Definition retkind_eqb (a b : retkind) : bool :=
  match a, b with RSame, RSame | RForeign, RForeign | ROther, ROther => true | _, _ => false end.
Definition obs_eqb (a b : obs) : bool :=
  match a, b with
  | ORet k c, ORet k' c' => retkind_eqb k k' && (match k with RSame => Bool.eqb c c' | _ => true end)
  | ORaise, ORaise | OHang, OHang => true
  | _, _ => false
  end.
Definition target_eqb (a b : target) : bool :=
  match a, b with
  | TAbsent, TAbsent | TNoParent, TNoParent | TFile, TFile => true
  | TDir o r i, TDir o' r' i' => Bool.eqb o o' && nlist_eqb r r' && Bool.eqb i i'
  | _, _ => false
  end.

(* clauses of the statement; untouched / opens are facts about the path after the call *)
Definition cl_no_hang (ob : obs) : bool := match ob with OHang => false | _ => true end.
Definition cl_return_exact (sc : scen) (ob : obs) : bool :=
  match ob with
  | ORet k c => negb (must_raise sc) && retkind_eqb k RSame && c
  | _ => true
  end.
Definition cl_stays (sc : scen) (untouched : bool) : bool := implb (must_stay sc) untouched.
Definition cl_not_openable (sc : scen) (ob : obs) (untouched opens : bool) : bool :=
  match ob with
  | ORet _ _ => true
  | _ => implb opens (untouched && openable (pre sc))
  end.
Definition spec_ok (sc : scen) (ob : obs) (untouched opens : bool) : bool :=
  cl_no_hang ob && cl_return_exact sc ob && cl_stays sc untouched && cl_not_openable sc ob untouched opens.

(* ---------- correspondence checker ---------- *)
Definition classify_ret (sc : scen) (d : data) : retkind :=
  if nlist_eqb (fst d) (input sc) then RSame
  else match pre sc with
       | TDir _ r true => if nlist_eqb (fst d) r then RForeign else ROther
       | _ => ROther
       end.
Definition model_obs (sc : scen) (o : outcome) : obs :=
  match o with Return d => ORet (classify_ret sc d) (snd d) | Raise => ORaise | Hang => OHang end.

Definition res_eqb (sc : scen) (a b : option (outcome * target)) : bool :=
  match a, b with
  | Some (o, d), Some (o', d') => obs_eqb (model_obs sc o) (model_obs sc o') && target_eqb d d'
  | _, _ => false
  end.
(* the parallel model under three schedules; they have to agree *)
Definition par_all (v : impl) (sc : scen) : option (outcome * target) :=
  let a := run v sc pol_main in
  if res_eqb sc a (run v sc pol_writer) && res_eqb sc a (run v sc pol_alt) then a else None.

Definition agree (v : impl) (par : bool) (sc : scen) (ob : obs) (untouched opens : bool) : bool :=
  match (if par then par_all v sc else Some (seq_run v sc)) with
  | Some (o, d) => obs_eqb (model_obs sc o) ob
                   && Bool.eqb (target_eqb d (pre sc)) untouched
                   && Bool.eqb (openable d) opens
  | None => false
  end.

(* flags: 0 the implementation follows `cur` or `fix`; 1 the property statement holds on the
   observation; 2..5 its clauses (which one failed); 6 follows `cur`; 7 follows `fix` *)
Definition c09_case (par : bool) (sc : scen) (ob : obs) (untouched opens : bool) : nat :=
  let ac := agree v_cur par sc ob untouched opens in
  let af := agree v_fix par sc ob untouched opens in
  code [ ac || af;
         spec_ok sc ob untouched opens;
         cl_no_hang ob;
         cl_return_exact sc ob;
         cl_stays sc untouched;
         cl_not_openable sc ob untouched opens;
         ac; af ].

Definition mk_scen (n : nat) (f : option fault) (p : target) (ow ea ec : bool) : scen :=
  {| input := seq 1 n; flt := f; pre := p; overwrite := ow; early := ea; empty_centre := ec |}.
Definition mk_fault (p : place) (c : nat) (k : fkind) : option fault :=
  Some {| where_ := p; at_chunk := c; kind := k |}.

(* ---------- what a directory holds when it is opened afterwards ----------
   (creation over a pre-existing valid catalog with overwrite: the old marker patch_ids.bin must not
   outlive the old data.)  Whatever the outcome and at whatever moment the directory is looked at:
   if it opens as a catalog it is either the untouched pre-existing one or holds the complete input. *)
Inductive held := HClosed | HPre | HNew | HOther.
Definition held_eqb (a b : held) : bool :=
  match a, b with HClosed, HClosed | HPre, HPre | HNew, HNew | HOther, HOther => true | _, _ => false end.
Definition held_of (sc : scen) (d : target) : held :=
  if negb (openable d) then HClosed
  else if target_eqb d (pre sc) then HPre
  else match d with
       | TDir _ r _ => if nlist_eqb r (input sc) then HNew else HOther
       | _ => HOther
       end.

(* a returned catalog can be opened again and holds the input (or is the untouched old one); after
   a failure (exception, hang) the path does not open, unless it is the untouched old catalog *)
Definition cl_open_exact (ob : obs) (h : held) : bool :=
  match ob, h with
  | ORet _ _, HNew | ORet _ _, HPre => true
  | ORet _ _, _ => false
  | _, HClosed | _, HPre => true
  | _, _ => false
  end.

Definition agree_held (v : impl) (par : bool) (sc : scen) (ob : obs) (h : held) : bool :=
  match (if par then par_all v sc else Some (seq_run v sc)) with
  | Some (o, d) => obs_eqb (model_obs sc o) ob && held_eqb (held_of sc d) h
  | None => false
  end.

(* c09_case plus: flag 8 the content of the opened directory is the one `cur` or `fix` leaves;
   flag 9 cl_open_exact; flag 10 the observation is consistent (opens <-> not HClosed, HPre -> untouched) *)
Definition c09_case_held (par : bool) (sc : scen) (ob : obs) (untouched opens : bool) (h : held) : nat :=
  c09_case par sc ob untouched opens
  + 256 * code [ agree_held v_cur par sc ob h || agree_held v_fix par sc ob h;
                 cl_open_exact ob h;
                 Bool.eqb opens (negb (held_eqb h HClosed)) && implb (held_eqb h HPre) untouched ].

(* a pre-existing valid catalog of k patches of other data *)
Definition old_catalog (k : nat) : target := TDir false (seq 101 k) true.

(* ---------- call options: what the main loop iterates over ----------
   The keywords of from_dataframe / from_file / from_random that are not part of the input (progress, degrees, the
   chunk size, probe_size) must not change the outcome.  One of them changes WHAT the main loop iterates:
   progress=True wraps the reader in utils/logging.py:Indicator, in sequential and in parallel mode.  A chunk
   iterator is a finite stream: the chunks it yields and how it stops. *)
Inductive ending := SEnd | SErr.
Definition stream := (list nat * ending)%type.

(* the chunk at which the READER raises (a worker fault is raised by the loop body, not by the iterator) *)
Definition reader_fault_at (sc : scen) : option nat :=
  match flt sc with
  | Some f => match where_ f with
              | InReader => if at_chunk f <? length (input sc) then Some (at_chunk f) else None
              | _ => None
              end
  | None => None
  end.
Definition reader_stream (sc : scen) : stream :=
  match reader_fault_at sc with Some c => (firstn c (input sc), SErr) | None => (input sc, SEnd) end.

(* Indicator.__iter__:  i = 0; for item in iterable: i += 1; display(i); yield item;  then close(i).
   Result: the stream handed on and the step numbers written to the terminal. *)
Fixpoint indicator_loop (xs : list nat) (i : nat) : list nat * list nat :=
  match xs with
  | [] => ([], [])
  | x :: r => let (ys, shown) := indicator_loop r (S i) in (x :: ys, S i :: shown)
  end.
Definition indicator (s : stream) : stream * list nat :=
  let (ys, shown) := indicator_loop (fst s) 0 in
  ((ys, snd s), match snd s with SEnd => shown ++ [length ys] | SErr => shown end).
(* a display that terminates its line in a `finally` block and leaves that block with `return` when fewer
   than `total` items came: the exception in flight is discarded, the stream simply ends *)
Definition indicator_return_in_finally (total : nat) (s : stream) : stream * list nat :=
  let (ys, shown) := indicator_loop (fst s) 0 in
  ((ys, if length ys <? total then SEnd else snd s),
   if length ys <? total then shown else shown ++ [length ys]).

(* the scenario the pipeline executes when its main loop iterates `w reader` instead of `reader`, for a wrapper
   that keeps the items: if the error still arrives, the same scenario; if the stream just ends, a fault-free
   creation of the chunks that came.  The outcome is then judged against the ORIGINAL scenario. *)
Definition keeps_items (w : stream -> stream) : Prop := forall s, fst (w s) = fst s.
Definition through (w : stream -> stream) (sc : scen) : scen :=
  match reader_fault_at sc with
  | Some _ =>
      match w (reader_stream sc) with
      | (_, SErr) => sc
      | (ys, SEnd) => {| input := ys; flt := None; pre := pre sc; overwrite := overwrite sc;
                         early := early sc; empty_centre := empty_centre sc |}
      end
  | None => sc
  end.
Definition with_progress (sc : scen) : scen := through (fun s => fst (indicator s)) sc.
Definition with_swallowing_progress (sc : scen) : scen :=
  through (fun s => fst (indicator_return_in_finally (length (input sc)) s)) sc.

(* ---------- the pre-existing state of the cache path, concretely ----------
   `target` says of a directory only whether it holds unrelated content, which catalog data and whether
   patch_ids.bin is there.  What a directory really is, is a listing.  "Is a catalog cache" is a statement about
   that listing: it is a real directory and patch_ids.bin - the file CatalogWriter.finalize writes last and
   read_patch_ids asks for - is in it.  Nothing else counts: not the names of the other entries (user files called
   patch_notes.txt, left-over patch_3/ directories of an interrupted creation), not their number (an empty
   directory is not a cache), not what lies deeper (a catalog in a sub-directory). *)
Inductive entry :=
| EMarker                     (* patch_ids.bin *)
| EPatch (c : nat)            (* a patch directory patch_<k> holding catalog data (chunk label c) *)
| EPatchNamed                 (* any other entry whose name starts with "patch_": patch_notes.txt, an empty patch_3/,
                                 a sub-directory patch_0/ that is itself a catalog *)
| EOther.                     (* any other entry *)
Inductive fspath :=
| FAbsent | FNoParent | FFile
| FDir (es : list entry)
| FLink (to : fspath).        (* a symbolic link; FLink FAbsent is a dangling one *)

Definition is_marker (e : entry) : bool := match e with EMarker => true | _ => false end.
Definition has_marker (es : list entry) : bool := existsb is_marker es.
Definition foreign (e : entry) : bool := match e with EPatchNamed | EOther => true | _ => false end.
Definition patch_named (e : entry) : bool := match e with EOther => false | _ => true end.   (* patch_ids.bin too *)
Fixpoint chunks_of (es : list entry) : list nat :=
  match es with [] => [] | EPatch c :: r => c :: chunks_of r | _ :: r => chunks_of r end.

Definition is_cache (p : fspath) : bool := match p with FDir es => has_marker es | _ => false end.

(* a guard is the test CatalogWriter.__init__ applies to an existing directory before rmtree.  The abstract state of
   a listing as the pipeline with guard g sees it: the bit `ids` of `target` is what decides in init_dir. *)
Definition guard := list entry -> bool.
Definition guard_marker : guard := has_marker.
(* "the marker, or the remains of an interrupted creation: every entry is called patch_..." *)
Definition guard_names : guard := fun es => has_marker es || forallb patch_named es.
Definition abs_dir (g : guard) (es : list entry) : target := TDir (existsb foreign es) (chunks_of es) (g es).
(* Catalog(path) on a listing: the marker and the patch data it lists (a marker alone does not open) *)
Definition dir_opens (es : list entry) : bool :=
  has_marker es && match chunks_of es with [] => false | _ => true end.

(* a reading of a concrete path: the abstract state, whether the pipeline is in a position to overwrite it, and
   whether it opens as a catalog before the call *)
Definition reading := (target * bool * bool)%type.
Fixpoint resolve (p : fspath) : fspath := match p with FLink q => resolve q | _ => p end.
Definition plain_reading (g : guard) (p : fspath) (ow : bool) : reading :=
  match p with
  | FAbsent => (TAbsent, ow, false)
  | FNoParent => (TNoParent, ow, false)
  | FFile | FLink _ => (TFile, ow, false)
  | FDir es => (abs_dir g es, ow, dir_opens es)
  end.
(* the code: exists / is_dir / the marker test look through a symbolic link, rmtree refuses one and mkdir does not
   create through one.  So a link to anything that exists is an existing path that cannot be overwritten, a
   dangling link is a location that cannot be used. *)
Definition code_reading (g : guard) (p : fspath) (ow : bool) : reading :=
  match p with
  | FLink q => match resolve q with
               | FAbsent | FNoParent => (TNoParent, ow, false)
               | r => let '(t, _, o) := plain_reading g r ow in (t, false, o)
               end
  | _ => plain_reading g p ow
  end.
(* the other reading the statement admits (it does not say whether a link is followed): the path is what the
   link points to *)
Definition follow_reading (g : guard) (p : fspath) (ow : bool) : reading := plain_reading g (resolve p) ow.

Definition r_pre (r : reading) : target := fst (fst r).
Definition r_ow (r : reading) : bool := snd (fst r).
Definition r_opens (r : reading) : bool := snd r.
Definition with_reading (sc : scen) (r : reading) : scen :=
  {| input := input sc; flt := flt sc; pre := r_pre r; overwrite := r_ow r; early := early sc;
     empty_centre := empty_centre sc |}.
(* the scenario of a call on a concrete path as the pipeline with guard g executes it; judged is always the
   scenario under guard_marker *)
Definition on_path (g : guard) (sc : scen) (p : fspath) : scen := with_reading sc (code_reading g p (overwrite sc)).

(* a directory that carries the marker without the data it lists does not open while it is as it was *)
Definition openable_p (po : bool) (sc : scen) (d : target) : bool :=
  openable d && (po || negb (target_eqb d (pre sc))).
Definition held_of_p (po : bool) (sc : scen) (d : target) : held :=
  if negb (openable_p po sc d) then HClosed
  else if target_eqb d (pre sc) then HPre
  else match d with
       | TDir _ r _ => if nlist_eqb r (input sc) then HNew else HOther
       | _ => HOther
       end.
Definition agree_p (v : impl) (par : bool) (sc : scen) (po : bool) (ob : obs) (untouched opens : bool) : bool :=
  match (if par then par_all v sc else Some (seq_run v sc)) with
  | Some (o, d) => obs_eqb (model_obs sc o) ob
                   && Bool.eqb (target_eqb d (pre sc)) untouched
                   && Bool.eqb (openable_p po sc d) opens
  | None => false
  end.
Definition agree_held_p (v : impl) (par : bool) (sc : scen) (po : bool) (ob : obs) (h : held) : bool :=
  match (if par then par_all v sc else Some (seq_run v sc)) with
  | Some (o, d) => obs_eqb (model_obs sc o) ob && held_eqb (held_of_p po sc d) h
  | None => false
  end.

(* the checker of c09_case_held on a concrete path.  `sc` carries everything but the path (its `pre` is ignored).
   Flags 0..10 as in c09_case_held, where "the model" is the pipeline under either reading of the path and the
   statement is judged under the reading that is kinder to the observation; flag 11: nothing outside the cache
   path (the directory it lies in, what a link points to when the link was not followed) was modified;
   flag 12: a path left untouched opens exactly if its listing says so (consistency of the observation). *)
Definition judged (s1 s2 : scen) (ob : obs) (untouched opens : bool) (h : held) : scen :=
  if spec_ok s2 ob untouched opens && cl_open_exact ob h then s2 else s1.
Definition c09_path_low (par : bool) (s1 s2 : scen) (po : bool) (ob : obs) (untouched opens : bool) (h : held) : nat :=
  let ag v := agree_p v par s1 po ob untouched opens || agree_p v par s2 po ob untouched opens in
  let agh v := agree_held_p v par s1 po ob h || agree_held_p v par s2 po ob h in
  let sj := judged s1 s2 ob untouched opens h in
  code [ ag v_cur || ag v_fix;
         spec_ok sj ob untouched opens;
         cl_no_hang ob;
         cl_return_exact sj ob;
         cl_stays sj untouched;
         cl_not_openable sj ob untouched opens;
         ag v_cur; ag v_fix;
         agh v_cur || agh v_fix;
         cl_open_exact ob h;
         Bool.eqb opens (negb (held_eqb h HClosed)) && implb (held_eqb h HPre) untouched ].
Definition c09_case_path (par : bool) (sc : scen) (p : fspath) (ob : obs) (untouched opens : bool) (h : held)
                         (around : bool) : nat :=
  let r1 := code_reading guard_marker p (overwrite sc) in
  let r2 := follow_reading guard_marker p (overwrite sc) in
  c09_path_low par (with_reading sc r1) (with_reading sc r2) (r_opens r1) ob untouched opens h
  + 2048 * code [ around; implb untouched (Bool.eqb opens (r_opens r1)) ].

(* a valid catalog of k patches of other data, with further entries next to them *)
Definition catalog_entries (k : nat) (more : list entry) : list entry := EMarker :: map EPatch (seq 101 k) ++ more.

(* ---------- columns of independent length ----------
   "Columns of unequal length raise."  Which inputs HAVE columns of unequal length depends on the source: the columns
   of a table (a pandas data frame, a FITS table HDU, a Parquet file) have one row count by construction; the datasets
   of an HDF5 file are independent arrays, each with a length of its own.  Such a source is the list of the lengths of
   the selected columns, right ascension first (its length is the record count the reader announces and iterates to).

   The reader walks over [c*cs, c*cs+cs) for every c with c*cs < n and slices EVERY column with that range; a slice
   beyond the end of a column is cut off (numpy / h5py semantics).  DataChunk.create compares the lengths of the
   slices of one chunk.  HDFReader.__init__ compares the lengths of the datasets themselves before anything starts
   (`early`).  A reader that relies on the per-chunk comparison alone (SrcPerChunk of the slices) is a different
   algorithm: Proofs/FailStopP.v says exactly which unequal columns it lets through. *)
Definition all_eq (xs : list nat) : bool :=
  match xs with [] => true | x :: r => forallb (Nat.eqb x) r end.
Definition slice_len (L start stop : nat) : nat := Nat.min L stop - Nat.min L start.
Definition nrec (lens : list nat) : nat := hd 0 lens.
Definition nchunks_of (n cs : nat) : nat := (n + (cs - 1)) / cs.
Definition chunk_lens (lens : list nat) (cs c : nat) : list nat :=
  map (fun L => slice_len L (c * cs) (c * cs + cs)) lens.
Definition slices_of (lens : list nat) (cs : nat) : list (list nat) :=
  map (chunk_lens lens cs) (seq 0 (nchunks_of (nrec lens) cs)).
(* the first chunk whose slices differ in length *)
Fixpoint first_bad (sl : list (list nat)) : option nat :=
  match sl with
  | [] => None
  | x :: r => if all_eq x then option_map S (first_bad r) else Some 0
  end.

(* a source of columns: independent columns behind the up-front comparison (lengths, chunk size), or the slices the
   per-chunk comparison gets to see, chunk by chunk (firstpass: the patch centres are computed from a first pass over
   the whole reader, so a fault of the reader strikes before the writer exists) *)
Inductive colsource :=
| SrcUpFront (lens : list nat) (cs : nat)
| SrcPerChunk (sl : list (list nat)) (firstpass : bool).
Definition cols_unequal (src : colsource) : bool :=
  match src with
  | SrcUpFront lens _ => negb (all_eq lens)
  | SrcPerChunk sl _ => is_some (first_bad sl)
  end.
(* the scenario the pipeline executes on such a source (ea: the call fails early for another reason) *)
Definition cols_scen (src : colsource) (p : target) (ow ea ec : bool) : scen :=
  match src with
  | SrcUpFront lens cs => mk_scen (nchunks_of (nrec lens) cs) None p ow (ea || negb (all_eq lens)) ec
  | SrcPerChunk sl fp =>
      mk_scen (length sl)
              (if fp then None
               else match first_bad sl with Some c => mk_fault InReader c UnequalLen | None => None end)
              p ow (ea || (fp && is_some (first_bad sl))) ec
  end.
(* the same file read by a reader without the up-front comparison *)
Definition chunk_check_only (lens : list nat) (cs : nat) : colsource := SrcPerChunk (slices_of lens cs) false.
(* what that reader lets through: every other column is as long as the right ascension, or longer while the record
   count is an exact multiple of the chunk size *)
Definition slips_through (n cs : nat) (others : list nat) : Prop :=
  Forall (fun L => L = n \/ (n < L /\ n mod cs = 0)) others.

(* the checker: c09_case_path on the scenario of the source *)
Definition c09_case_cols (par : bool) (src : colsource) (ow ea ec : bool) (p : fspath) (ob : obs)
                         (untouched opens : bool) (h : held) (around : bool) : nat :=
  c09_case_path par (cols_scen src TAbsent ow ea ec) p ob untouched opens h around.
