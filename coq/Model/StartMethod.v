(* C05 — what a worker process knows.  A forked worker inherits the parent's memory (module-level registries included); a
   spawned worker (or one served by a fork server) starts empty and knows only what was pickled into its task.  A
   configuration is handed to the workers by pickling; the library pickles it BY VALUE.  A variant pickles one of its fields
   (the cosmology) as a key into a process-local registry and falls back to a default when the key is unknown. *)
From Coq Require Import List Arith Bool.
Import ListNotations.

Section StartMethod.
  Context {C : Type} (default : C).
  Inductive start := Fork | Spawn.
  Definition registry := nat -> option C.

  (* the registry a worker sees *)
  Definition worker_registry (m : start) (parent : registry) : registry :=
    match m with Fork => parent | Spawn => fun _ => None end.

  (* by value: the pickle carries the field itself *)
  Definition send_by_value (c : C) : C := c.
  (* by key: the pickle carries a key, the receiver looks it up in ITS registry *)
  Definition receive_by_key (r : registry) (key : nat) : C :=
    match r key with Some c => c | None => default end.

  (* the field as the job sees it: in the calling process (1 worker) it is the object itself *)
  Definition seen_by_value (workers : nat) (m : start) (c : C) : C := send_by_value c.
  Definition seen_by_key (workers : nat) (m : start) (parent : registry) (key : nat) (c : C) : C :=
    if workers <=? 1 then c else receive_by_key (worker_registry m parent) key.
End StartMethod.
