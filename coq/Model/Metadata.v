(* Model of patch metadata (catalog/patch.py:Metadata.compute), of how load_patches pairs
   the given centres with the patches (catalog/catalog.py:load_patches) and of the
   consistency guard of measurements (PatchLinkage.from_catalogs, check_patch_conistency). *)
From Verif Require Import Prelude.
Open Scope Q_scope.

(* ---- Metadata.compute ---- *)
Definition qmaxl (l : list Q) : Q :=
  match l with [] => 0 | x :: r => fold_left (fun a b => if Qleb a b then b else a) r x end.

Record meta := { num_records : nat; sum_weights : Q; radius : Q }.
(* dists = distances of the records to the centre (table), ws = weights if present *)
Definition compute (dists : list Q) (ws : option (list Q)) : meta :=
  {| num_records := length dists;
     sum_weights := match ws with None => inject_Z (Z.of_nat (length dists)) | Some w => qsum w end;
     radius := qmaxl dists |}.

(* ---- load_patches: ids (sorted, as read from patch_ids.bin) zipped with the given centres ---- *)
Section Centres.
  Context {C : Type}.
  (* pinned commit: plain zip, truncating *)
  Definition pair_centres_cur (ids : list nat) (centres : list C) : list (nat * C) := combine ids centres.
  (* repaired: refuse unless the ids are exactly 0..N-1 *)
  Definition pair_centres_fix (ids : list nat) (centres : list C) : option (list (nat * C)) :=
    if nlist_eqb ids (seq 0 (length centres)) then Some (combine ids centres) else None.
End Centres.

(* ---- consistency guard ---- *)
(* ids1/ids2: patch id sets (sorted); dists: distance between corresponding centres; radii of
   the reference catalog; rtol = 1/2.  true = accepted *)
Definition guard (ids1 ids2 : list nat) (dists radii : list Q) (rtol : Q) : bool :=
  nlist_eqb ids1 ids2 &&
  forallb (fun dr => Qleb (fst dr) (rtol * snd dr)) (combine dists radii).

(* ---- correspondence checkers ---- *)
Definition c12_meta_case (dists : list Q) (ws : option (list Q)) (n : nat) (sw rad : Q) : nat :=
  let m := compute dists ws in
  code [ (num_records m =? n)%nat && Qeqb (sum_weights m) sw && Qeqb (radius m) rad;  (* model = impl *)
         forallb (fun d => Qleb d rad) dists;                                          (* every record within the radius *)
         (length dists =? n)%nat ].
Definition c12_guard_case (ids1 ids2 : list nat) (dists radii : list Q) (accepted : bool) : nat :=
  code [ Bool.eqb (guard ids1 ids2 dists radii (1 # 2)) accepted;
         (* the property: refused when id sets differ or some centre pair is farther apart than the radius *)
         negb accepted || (nlist_eqb ids1 ids2 && forallb (fun dr => Qleb (fst dr) (snd dr)) (combine dists radii)) ].

(* ---- which patch-definition option wins (catalog/catalog.py:PatchMode.determine) ---- *)
Inductive pmode := Apply | Divide | Create.
(* arguments: is patch_centers / patch_name / patch_num given *)
Definition determine (centres name num : bool) : option pmode :=
  if centres then Some Apply else if name then Some Divide else if num then Some Create else None.

(* ---- index of the nearest centre (assign_patch_centers: scipy vq) on a row of distances
        record -> centre 0, 1, ...; the first minimum ---- *)
Fixpoint argmin (row : list Q) : nat :=
  match row with
  | [] => 0%nat
  | d :: r => match r with
              | [] => 0%nat
              | _ => let k := argmin r in if Qleb d (nth k r 0) then 0%nat else S k
              end
  end.

(* ---- split_into_patches / CatalogWriter.process_patches ---- *)
Section Split.
  Context {R : Type}.
  (* a chunk of input: the records and, if the reader was given patch_name, the index column *)
  Record chunk := { recs : list R; col : option (list nat) }.
  (* patch index of every record.  near = Some f: patch centres are given, f = nearest centre.
     Centres first ("statement order matters"): the column is dropped when centres are given. *)
  Definition chunk_ids (near : option (R -> nat)) (ch : chunk) : option (list nat) :=
    match near with
    | Some f => Some (map f (recs ch))
    | None => col ch
    end.
  (* the other statement order: a column, when present, wins over the centres *)
  Definition chunk_ids_colfirst (near : option (R -> nat)) (ch : chunk) : option (list nat) :=
    match col ch with
    | Some ids => Some ids
    | None => match near with Some f => Some (map f (recs ch)) | None => None end
    end.
  (* groupby: the records of the chunk that go to patch p *)
  Definition select (p : nat) (rs : list R) (ids : list nat) : list R :=
    map fst (filter (fun x => (snd x =? p)%nat) (combine rs ids)).
  (* the data of patch p after all chunks (sub-chunks of workers are chunks too) were processed
     in the given order; None = RuntimeError (no way to obtain patch ids) *)
  Fixpoint patch_data_with (cids : chunk -> option (list nat)) (chunks : list chunk) (p : nat) : option (list R) :=
    match chunks with
    | [] => Some []
    | ch :: rest =>
        match cids ch, patch_data_with cids rest p with
        | Some ids, Some tl => Some (select p (recs ch) ids ++ tl)
        | _, _ => None
        end
    end.
  Definition patch_data (near : option (R -> nat)) := patch_data_with (chunk_ids near).
  Definition patch_data_colfirst (near : option (R -> nat)) := patch_data_with (chunk_ids_colfirst near).
End Split.
Arguments chunk R : clear implicits.

(* the statement "the reported centres reproduce the partition" for one stored record: its row of
   distances to the reported centres is minimal at the index p of the patch that stores it *)
Definition own_centre_nearest (row : list Q) (p : nat) : bool :=
  (p <? length row)%nat && forallb (Qleb (nth p row 0)) row.

(* rows: per input record the distances to the reported centres; column: the input's patch index
   column if patch_name was given; stored: the patch in which the implementation stored the record *)
Definition c12_split_case (centres name num : bool) (rows : list (list Q)) (column : option (list nat))
                          (stored : list nat) : nat :=
  let ch := {| recs := rows; col := if name then column else None |} in
  code [ match determine centres name num with                                       (* model = impl *)
         | Some Apply => match chunk_ids (Some argmin) ch with Some ids => nlist_eqb ids stored | None => false end
         | Some Divide => match chunk_ids None ch with Some ids => nlist_eqb ids stored | None => false end
         | _ => true
         end;
         negb centres || forallb (fun rp => own_centre_nearest (fst rp) (snd rp)) (combine rows stored);
         (length stored =? length rows)%nat ].
(* the same with the rows given as integers: squared chords in units of 2^-K (one K per case) *)
Definition c12_split_case_z (centres name num : bool) (rows : list (list Z)) (column : option (list nat))
                            (stored : list nat) : nat :=
  c12_split_case centres name num (map (map inject_Z) rows) column stored.

(* ================= the guard of a measurement with any number of catalogs =================
   PatchLinkage.from_catalogs(config, catalog, *catalogs) as called by autocorrelate (data, random)
   and crosscorrelate (reference, unknown[, ref_rand][, unk_rand]):
     1. every catalog must have the patch ids of the first one,
     2. the catalogs are sorted by get_num_records() - a tuple, so the comparison is Python's
        lexicographic one - descending and stable; the first one is the reference catalog,
     3. check_patch_conistency: the centres of EVERY other catalog are compared with the centres
        of the reference catalog, the bound being rtol times the reference catalog's OWN patch
        radius (rtol = 1/2) - the radii that from_catalogs afterwards inflates for the linkage play
        no part in the test. *)
Record gcat := { g_ids : list nat; g_nrec : list nat; g_radii : list Q }.

(* Python's tuple comparison a < b *)
Fixpoint lex_ltb (a b : list nat) : bool :=
  match a, b with
  | _, [] => false
  | [], _ :: _ => true
  | x :: a', y :: b' => (x <? y)%nat || ((x =? y)%nat && lex_ltb a' b')
  end.

(* sorted(l, key=key, reverse=True): descending, elements with equal keys keep their order *)
Section SortDesc.
  Context {A : Type} (key : A -> list nat).
  Fixpoint insert_desc (x : A) (l : list A) : list A :=
    match l with
    | [] => [x]
    | y :: r => if lex_ltb (key x) (key y) then y :: insert_desc x r else x :: l
    end.
  Definition sort_desc (l : list A) : list A := fold_right insert_desc [] l.
End SortDesc.

(* all distances within rtol * radius (np.any(distance / radii > rtol) is False) *)
Definition within (rtol : Q) (dists radii : list Q) : bool :=
  forallb (fun dr => Qleb (fst dr) (rtol * snd dr)) (combine dists radii).

Definition gnone : gcat := {| g_ids := []; g_nrec := []; g_radii := [] |}.
Definition gnth (cats : list gcat) (i : nat) : gcat := nth i cats gnone.
(* dt: table of the distances between corresponding centres, tab dt i j = centres of catalog i
   (position in the call) against those of catalog j *)
Definition tab (dt : list (list (list Q))) (i j : nat) : list Q := nth j (nth i dt []) [].

Definition ids_match (cats : list gcat) : bool :=
  match cats with
  | [] => true
  | c :: r => forallb (fun c' => nlist_eqb (g_ids c') (g_ids c)) r
  end.
(* the order in which the catalogs (positions in the call) are looked at; head = reference *)
Definition check_order (key : gcat -> list nat) (cats : list gcat) : list nat :=
  sort_desc (fun i => key (gnth cats i)) (seq 0 (length cats)).
(* check_patch_conistency: radii = those of the reference, others = distance rows reference -> other *)
Definition check_fixed (rtol : Q) (radii : list Q) (others : list (list Q)) : bool :=
  forallb (fun d => within rtol d radii) others.
(* the test against one candidate reference catalog *)
Definition guard_ref (cats : list gcat) (dt : list (list (list Q))) (rtol : Q) (ref : nat) (others : list nat) : bool :=
  check_fixed rtol (g_radii (gnth cats ref)) (map (tab dt ref) others).
Definition guard_many_by (key : gcat -> list nat) (cats : list gcat) (dt : list (list (list Q))) (rtol : Q) : bool :=
  ids_match cats &&
  match check_order key cats with
  | [] => true
  | ref :: others => guard_ref cats dt rtol ref others
  end.
Definition guard_many := guard_many_by g_nrec.

(* the other way to write the loop: the test of each catalog is made against radii that were
   already inflated by the extent (own radius + centre offset) of the catalogs looked at before;
   others = (distance row reference -> other, radii of the other) in checking order *)
Definition qmax (a b : Q) : Q := if Qleb a b then b else a.
Fixpoint zipw {A B C : Type} (f : A -> B -> C) (l1 : list A) (l2 : list B) : list C :=
  match l1, l2 with
  | x :: r1, y :: r2 => f x y :: zipw f r1 r2
  | _, _ => []
  end.
Fixpoint check_running (rtol : Q) (radii : list Q) (others : list (list Q * list Q)) : bool :=
  match others with
  | [] => true
  | (d, r) :: rest => within rtol d radii && check_running rtol (zipw qmax radii (zipw Qplus r d)) rest
  end.

(* ---- correspondence checker for a guarded call with k catalogs (in call order) ---- *)
(* the two readings of "the catalog with most entries": the code's (tuple of records per patch)
   and the docstring's (total number of records) *)
Definition key_total (c : gcat) : list nat := [fold_right Nat.add 0%nat (g_nrec c)].
Definition maximal_by (key : gcat -> list nat) (cats : list gcat) (r : nat) : bool :=
  forallb (fun c => negb (lex_ltb (key (gnth cats r)) (key c))) cats.
(* some catalog that may be called the reference has every other catalog within rtol * its radius *)
Definition guard_some_ref (cats : list gcat) (dt : list (list (list Q))) (rtol : Q) : bool :=
  ids_match cats &&
  existsb (fun r => (maximal_by g_nrec cats r || maximal_by key_total cats r) &&
                    guard_ref cats dt rtol r (filter (fun j => negb (j =? r)%nat) (seq 0 (length cats))))
          (seq 0 (length cats)).
(* table and metadata have the shape the model relies on (combine truncates silently) *)
Definition shape_ok (cats : list gcat) (dt : list (list (list Q))) : bool :=
  negb (ids_match cats) ||
  ((length dt =? length cats)%nat &&
   forallb (fun i => (length (nth i dt []) =? length cats)%nat &&
                     (length (g_radii (gnth cats i)) =? length (g_ids (gnth cats i)))%nat &&
                     (length (g_nrec (gnth cats i)) =? length (g_ids (gnth cats i)))%nat &&
                     forallb (fun j => (j =? i)%nat || (length (tab dt i j) =? length (g_ids (gnth cats i)))%nat)
                             (seq 0 (length cats)))
           (seq 0 (length cats))).
Definition c12_guardn_case (cats : list gcat) (dt : list (list (list Q))) (accepted : bool) : nat :=
  code [ Bool.eqb (guard_many cats dt (1 # 2)) accepted;       (* model = impl *)
         (* the property, the radius being that of the reference catalog the code selects *)
         negb accepted || guard_many cats dt 1;
         (* the property, whichever of the catalogs with most entries is taken as the reference *)
         negb accepted || guard_some_ref cats dt 1;
         shape_ok cats dt ].

(* ================= creation routes: the centres that split the records and the centres that are reported =========
   Catalog.from_dataframe / from_file / from_random (from_random has no patch_name):
     1. mode = determine(patch_centers, patch_name, patch_num);
     2. Create: the centres are made by k-means (treecorr) on a probe of the input - an oracle, any list `made`;
     3. write_patches splits the records by the nearest of the centres in use (Apply: the given ones, a reference
        catalog standing for its reported centres; Create: the made ones; Divide: no centres, the index column);
     4. load_patches is handed centres too: every patch stores and reports the centre it is handed, a patch that is
        handed none reports the mean of its records.
   The statement "the reported centres reproduce the partition" needs 3 and 4 to be about the same centres. *)
Definition is_given {A : Type} (o : option A) : bool := match o with Some _ => true | None => false end.

Section Routes.
  Context {C R : Type} (dist : R -> C -> Q).
  (* the centres the records are split by *)
  Definition centres_in_use (given : option (list C)) (name num : bool) (made : list C) : option (list C) :=
    match determine (is_given given) name num with
    | Some Apply => given
    | Some Create => Some made
    | _ => None
    end.
  (* load_patches(patch_centers=handed): the centres of the new catalog; means = per patch the mean of its records *)
  Definition centres_reported (handed : option (list C)) (means : list C) : list C :=
    match handed with Some cs => cs | None => means end.
  (* distances of a record to centre 0, 1, ... and the index of the nearest one *)
  Definition row_to (cs : list C) (r : R) : list Q := map (dist r) cs.
  Definition nearest (cs : list C) (r : R) : nat := argmin (row_to cs r).
  (* the records of patch p *)
  Definition route_data (given : option (list C)) (name num : bool) (made : list C) (chunks : list (chunk R)) (p : nat)
    : option (list R) :=
    patch_data (option_map nearest (centres_in_use given name num made)) chunks p.
  (* the pinned code, all three entry points: the loader is handed the centres in use *)
  Definition route_centres (given : option (list C)) (name num : bool) (made means : list C) : list C :=
    centres_reported (centres_in_use given name num made) means.
  (* the other way to write an entry point: the loader is handed the caller's patch_centers argument *)
  Definition route_centres_arg (given : option (list C)) (means : list C) : list C :=
    centres_reported given means.
End Routes.

(* one catalog (any creation route, centres given or made) and the catalog built from its stored records with
   patch_centers = the first catalog.  rows: per stored record of the first catalog the distances to its REPORTED
   centres; stored: index of the patch that stores it; stored2: index of the patch of the second catalog that stores it *)
Definition nearest_rows (rows : list (list Q)) : list nat :=
  match chunk_ids (Some argmin) {| recs := rows; col := None |} with Some ids => ids | None => [] end.
Definition c12_route_case (rows : list (list Q)) (stored stored2 : list nat) : nat :=
  code [ nlist_eqb (nearest_rows rows) stored;                                         (* model = impl: split by the reported centres *)
         forallb (fun rp => own_centre_nearest (fst rp) (snd rp)) (combine rows stored);    (* the statement, first catalog *)
         forallb (fun rp => own_centre_nearest (fst rp) (snd rp)) (combine rows stored2);   (* the statement, second catalog (same centres) *)
         nlist_eqb stored2 stored;                                                     (* the centres reproduce the partition *)
         (length stored =? length rows)%nat && (length stored2 =? length rows)%nat ].
Definition c12_route_case_z (rows : list (list Z)) (stored stored2 : list nat) : nat :=
  c12_route_case (map (map inject_Z) rows) stored stored2.

(* ================= degenerate patches in the guard =================
   check_patch_conistency evaluates  np.any(distance / radii > rtol)  on float64 arrays.  A patch that holds a
   single object, or several objects at one position, has the stored radius 0 (created or restored, patch-id or
   given-centre mode).  The rule: a centre that is displaced at all is farther away than rtol times a zero radius -
   a zero radius makes every displacement "large", never "small". *)
(* the test of one patch in division-free form: refused iff distance > rtol * radius *)
Definition patch_refused (d r rtol : Q) : bool := negb (Qleb d (rtol * r)).
(* what the code computes: the float64 quotient of two non-negative numbers - x / 0 is +inf, 0 / 0 is nan -
   and a comparison  > rtol  that is False for nan *)
Inductive fquot := Fin (q : Q) | PosInf | NaN.
Definition fdiv (d r : Q) : fquot :=
  if Qeqb r 0 then (if Qeqb d 0 then NaN else PosInf) else Fin (d / r).
Definition fgt (x : fquot) (rtol : Q) : bool :=
  match x with Fin q => negb (Qleb q rtol) | PosInf => true | NaN => false end.
Definition patch_refused_ieee (d r rtol : Q) : bool := fgt (fdiv d r) rtol.
(* the other way to write the quotient: a division by 0 is defined as 0 (np.divide(..., where=radii > 0) into
   zeros, a guarded ratio helper, ...) - this is also what Coq's own Qdiv does *)
Definition qdiv0 (d r : Q) : Q := if Qeqb r 0 then 0 else d / r.
Definition patch_refused_div0 (d r rtol : Q) : bool := negb (Qleb (qdiv0 d r) rtol).
Definition within_div0 (rtol : Q) (dists radii : list Q) : bool :=
  forallb (fun dr => negb (patch_refused_div0 (fst dr) (snd dr) rtol)) (combine dists radii).

(* the degenerate clause on its own: wherever the reference catalog's radius is 0, the corresponding centres of
   every other catalog coincide with the reference centre *)
Definition zero_radius_aligned (radii : list Q) (others : list (list Q)) : bool :=
  forallb (fun d => forallb (fun dr => negb (Qeqb (snd dr) 0) || Qleb (fst dr) 0) (combine d radii)) others.
Definition guard_zero_ok (cats : list gcat) (dt : list (list (list Q))) : bool :=
  match check_order g_nrec cats with
  | [] => true
  | ref :: others => zero_radius_aligned (g_radii (gnth cats ref)) (map (tab dt ref) others)
  end.
(* correspondence checker for scenes with degenerate patches: the flags of c12_guardn_case, and 16 when the call
   was accepted although a zero-radius patch of the reference catalog has a displaced partner *)
Definition c12_guardd_case (cats : list gcat) (dt : list (list (list Q))) (accepted : bool) : nat :=
  (c12_guardn_case cats dt accepted +
   (if negb accepted || negb (ids_match cats) || guard_zero_ok cats dt then 0 else 16))%nat.
