(* Model of patch metadata (catalog/patch.py:Metadata.compute), of how load_patches pairs
   the given centres with the patches (catalog/catalog.py:load_patches) and of the
   consistency guard of measurements (PatchLinkage.from_catalogs, check_patch_conistency). *)
From Verif Require Import Prelude.
Open Scope Q_scope.

(* ---- Metadata.compute ---- *)
Definition qmaxl (l : list Q) : Q :=
  match l with [] => 0 | x :: r => fold_left (fun a b => if Qleb a b then b else a) r x end.

Record meta := { num_records : nat; sum_weights : Q; radius : Q }.
(* dists = distances of the records to the centre (table), ws = weights if present *)
Definition compute (dists : list Q) (ws : option (list Q)) : meta :=
  {| num_records := length dists;
     sum_weights := match ws with None => inject_Z (Z.of_nat (length dists)) | Some w => qsum w end;
     radius := qmaxl dists |}.

(* ---- load_patches: ids (sorted, as read from patch_ids.bin) zipped with the given centres ---- *)
Section Centres.
  Context {C : Type}.
  (* pinned commit: plain zip, truncating *)
  Definition pair_centres_cur (ids : list nat) (centres : list C) : list (nat * C) := combine ids centres.
  (* repaired: refuse unless the ids are exactly 0..N-1 *)
  Definition pair_centres_fix (ids : list nat) (centres : list C) : option (list (nat * C)) :=
    if nlist_eqb ids (seq 0 (length centres)) then Some (combine ids centres) else None.
End Centres.

(* ---- consistency guard ---- *)
(* ids1/ids2: patch id sets (sorted); dists: distance between corresponding centres; radii of
   the reference catalog; rtol = 1/2.  true = accepted *)
Definition guard (ids1 ids2 : list nat) (dists radii : list Q) (rtol : Q) : bool :=
  nlist_eqb ids1 ids2 &&
  forallb (fun dr => Qleb (fst dr) (rtol * snd dr)) (combine dists radii).

(* ---- correspondence checkers ---- *)
Definition c12_meta_case (dists : list Q) (ws : option (list Q)) (n : nat) (sw rad : Q) : nat :=
  let m := compute dists ws in
  code [ (num_records m =? n)%nat && Qeqb (sum_weights m) sw && Qeqb (radius m) rad;  (* model = impl *)
         forallb (fun d => Qleb d rad) dists;                                          (* every record within the radius *)
         (length dists =? n)%nat ].
Definition c12_guard_case (ids1 ids2 : list nat) (dists radii : list Q) (accepted : bool) : nat :=
  code [ Bool.eqb (guard ids1 ids2 dists radii (1 # 2)) accepted;
         (* the property: refused when id sets differ or some centre pair is farther apart than the radius *)
         negb accepted || (nlist_eqb ids1 ids2 && forallb (fun dr => Qleb (fst dr) (snd dr)) (combine dists radii)) ].
