(* C05 / C01 — the job list: PatchLinkage.iter_patch_id_pairs as the algorithm it is (correlation/measurements.py).
   The dictionary patch_links is a list of (patch id, linked ids) in insertion order; each set of linked ids is a
   list in the order in which set.pop() will hand out its elements (any order: the theorems quantify over it).

     for i, links in patch_links.items():  links.remove(i); yield (i, i)           -- phase1 (KeyError = None)
     while len(patch_links) > 0:                                                     -- sweeps
         for i, links in patch_links.items():                                        -- one sweep
             try: j = links.pop()  except KeyError: exhausted.add(i); continue
             if not auto or j > i: yield (i, j)
         for i in exhausted: patch_links.pop(i)

   The while loop is modelled with explicit fuel; out of fuel is None, and rr_defined shows that the fuel given by
   iter_pairs always suffices (the loop terminates for every dictionary). *)
From Verif Require Import Prelude.
Open Scope nat_scope.

Definition rr_state := list (nat * list nat).

(* set.remove(i): removes the element, KeyError (None) when absent *)
Fixpoint remove_first (i : nat) (l : list nat) : option (list nat) :=
  match l with
  | [] => None
  | x :: t => if x =? i then Some t else option_map (cons x) (remove_first i t)
  end.

Fixpoint phase1 (st : rr_state) : option (list (nat * nat) * rr_state) :=
  match st with
  | [] => Some ([], [])
  | (i, l) :: rest =>
      match remove_first i l with
      | None => None
      | Some l' =>
          match phase1 rest with
          | None => None
          | Some (ys, rest') => Some ((i, i) :: ys, (i, l') :: rest')
          end
      end
  end.

Definition yield_of (auto : bool) (i j : nat) : list (nat * nat) :=
  if negb auto || (i <? j) then [(i, j)] else [].

(* one pass of the for loop over the dictionary: what is yielded, and the dictionary after the exhausted keys
   have been removed *)
Definition sweep_out (auto : bool) (st : rr_state) : list (nat * nat) :=
  flat_map (fun e => match snd e with [] => [] | j :: _ => yield_of auto (fst e) j end) st.
Definition sweep_next (st : rr_state) : rr_state :=
  flat_map (fun e => match snd e with [] => [] | _ :: t => [(fst e, t)] end) st.

Fixpoint sweeps (fuel : nat) (auto : bool) (st : rr_state) : option (list (nat * nat)) :=
  match st with
  | [] => Some []
  | _ :: _ =>
      match fuel with
      | 0 => None
      | S f => option_map (app (sweep_out auto st)) (sweeps f auto (sweep_next st))
      end
  end.

(* every pass removes one element from, or drops, every key: this many passes always suffice *)
Definition rr_size (st : rr_state) : nat := fold_right (fun e m => S (length (snd e)) + m) 0 st.

Definition iter_pairs (auto : bool) (st : rr_state) : option (list (nat * nat)) :=
  match phase1 st with
  | None => None
  | Some (ys, st') => option_map (app ys) (sweeps (rr_size st') auto st')
  end.

(* the set of jobs the iterator is documented to produce (PairCount.id_pairs, on the dictionary) *)
Definition jobs_spec (auto : bool) (st : rr_state) : list (nat * nat) :=
  map (fun e => (fst e, fst e)) st ++
  flat_map (fun e => map (pair (fst e))
     (filter (fun j => negb (j =? fst e) && (negb auto || (fst e <? j))) (snd e))) st.

(* num_links: the progress total of a cross-correlation *)
Definition num_links (st : rr_state) : nat := fold_right (fun e m => length (snd e) + m) 0 st.

(* ---------- correspondence checker ---------- *)
Definition pair_eqb (a b : nat * nat) : bool := (fst a =? fst b) && (snd a =? snd b).
(* impl = None : the implementation raised KeyError *)
Definition c05_iter_case (auto : bool) (st : rr_state) (impl : option (list (nat * nat))) : nat :=
  code [ match iter_pairs auto st, impl with
         | Some ys, Some zs => list_eqb pair_eqb ys zs
         | None, None => true
         | _, _ => false
         end ].
