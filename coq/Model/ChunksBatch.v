(* C02 / C09 / C18 — a variant of ParquetReader._load_groups that fetches the row groups for a chunk in ONE request,
   taking their number as ceil(missing rows / rows of the NEXT group), i.e. assuming the following groups are as large as
   the next one.  Not the code: kept to state what goes wrong with it (seeded/C02_11, seeded/C09_11). *)
From Verif Require Import Prelude Chunks.

Definition ceil_div (a b : nat) : nat := (a + (b - 1)) / (Nat.max b 1).

Definition load_groups_batch {A} (cs : nat) (cache file : list (list A)) : list (list A) * list (list A) :=
  let missing := cs - cache_size cache in
  match file with
  | [] => (cache, [])
  | g :: _ =>
      if missing =? 0 then (cache, file)
      else let k := ceil_div missing (length g) in (cache ++ firstn k file, skipn k file)
  end.

Fixpoint parquet_from_batch {A} (fuel s n cs : nat) (cache file : list (list A)) : list (list A) :=
  match fuel with
  | O => []
  | S f => if n <=? s then [] else
             let '(cache1, file1) := load_groups_batch cs cache file in
             let '(chunk, cache2) := extract_chunk cs cache1 in
             chunk :: parquet_from_batch f (s + cs) n cs cache2 file1
  end.
Definition parquet_chunks_batch {A} (cs : nat) (groups : list (list A)) : list (list A) :=
  let n := length (concat groups) in parquet_from_batch n 0 n cs [] groups.

(* a file written in batches of 3 rows and 1 row in turn *)
Fixpoint alternating (k next : nat) : list (list nat) :=
  match k with
  | O => []
  | S k' => [next; next + 1; next + 2] :: [next + 3] :: alternating k' (next + 4)
  end.
