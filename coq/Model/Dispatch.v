(* Model of utils/parallel.py: _mpi_root_task / _mpi_worker_task / _mpi_iter_unordered
   (ported from design_probes/Dispatch.v, extended by the send mode and an executable step).

   ws[i] is rank i+1.  Per worker there are two FIFO channels: [inb] root -> worker (tag 1,
   tasks and the end-of-queue sentinel) and [outb] worker -> root (tag 2, results).  The
   root's wildcard receive takes the head of ANY non-empty [outb].  [allowed i] is
   "rank i+1 is in `ranks`".

   Send mode: [Eager] a send only enqueues.  [Sync] (rendezvous) a send returns when the
   message has been received: the root can make its next move only when every message it
   sent has been taken, i.e. all [inb] are empty.  (A worker that has sent its result does
   nothing until the root answers in either mode, so the worker side needs no extra premise.)

   Root fallback [fb]: the repaired _mpi_iter_unordered (commit cd002ec) lets the root, after
   _mpi_root_task has returned, run every task that is still pending itself, in order
   (`yield from map(wrapped_func, iterable)`), and only then enter the barrier.  [fb = true] is
   that algorithm; [fb = false] is the pinned one ("_cur" variant: the root goes to the barrier
   with whatever is still pending), kept as documentation of finding F13a.

   No proofs in this file. *)
From Verif Require Import Prelude.
From Coq Require Import Permutation.
Open Scope nat_scope.
Set Implicit Arguments.

Inductive rpc := RInit (k active : nat) | RLoop (active : nat) | RBar | RDone.
Inductive mode := Eager | Sync.
Inductive choice :=
| CInitTask (k : nat) | CInitEoq (k : nat) | CInitDone
| CRecvMore (i : nat) | CRecvLast (i : nat) | CFallback | CExit
| CWTask (i : nat) | CWEoq (i : nat) | CBar.

Definition upd {A} (i : nat) (x : A) (l : list A) : list A := firstn i l ++ x :: skipn (S i) l.
Fixpoint nsum (l : list nat) := match l with [] => 0 | x :: xs => x + nsum xs end.

Section Dispatch.
  Context {T R : Type}.
  Context (f : T -> R).
  Context (allowed : nat -> bool).
  Context (fb : bool).

  Inductive msg := Task (t : T) | EOQ.
  Record worker := mkW { inb : list msg; outb : list R; fin : bool }.
  Record st := mkS { pc : rpc; pend : list T; ws : list worker; got : list R; ran : list T }.

  Definition noinb (l : list worker) : bool :=
    forallb (fun w => match inb w with [] => true | _ => false end) l.
  Definition root_ok (m : mode) (l : list worker) : bool :=
    match m with Eager => true | Sync => noinb l end.

  Inductive step (m : mode) : st -> st -> Prop :=
  | s_init_task k a t p ws g r w :
      allowed k = true -> nth_error ws k = Some w -> root_ok m ws = true ->
      step m (mkS (RInit k a) (t :: p) ws g r)
             (mkS (RInit (S k) (S a)) p (upd k (mkW (inb w ++ [Task t]) (outb w) (fin w)) ws) g r)
  | s_init_eoq k a p ws g r w :
      (allowed k = false \/ p = []) -> nth_error ws k = Some w -> root_ok m ws = true ->
      step m (mkS (RInit k a) p ws g r)
             (mkS (RInit (S k) a) p (upd k (mkW (inb w ++ [EOQ]) (outb w) (fin w)) ws) g r)
  | s_init_done k a p ws g r :
      k = length ws -> root_ok m ws = true ->
      step m (mkS (RInit k a) p ws g r) (mkS (RLoop a) p ws g r)
  | s_recv_more i a t p ws g r w x xs :
      nth_error ws i = Some w -> outb w = x :: xs -> root_ok m ws = true ->
      step m (mkS (RLoop (S a)) (t :: p) ws g r)
             (mkS (RLoop (S a)) p (upd i (mkW (inb w ++ [Task t]) xs (fin w)) ws) (g ++ [x]) r)
  | s_recv_last i a ws g r w x xs :
      nth_error ws i = Some w -> outb w = x :: xs -> root_ok m ws = true ->
      step m (mkS (RLoop (S a)) [] ws g r)
             (mkS (RLoop a) [] (upd i (mkW (inb w ++ [EOQ]) xs (fin w)) ws) (g ++ [x]) r)
  | s_exit p ws g r :
      root_ok m ws = true -> (fb = true -> p = []) ->
      step m (mkS (RLoop 0) p ws g r) (mkS RBar p ws g r)
  | s_fallback t p ws g r :
      fb = true -> root_ok m ws = true ->
      step m (mkS (RLoop 0) (t :: p) ws g r) (mkS (RLoop 0) p ws (g ++ [f t]) (r ++ [t]))
  | s_wtask i c p ws g r w t ms :
      nth_error ws i = Some w -> fin w = false -> inb w = Task t :: ms ->
      step m (mkS c p ws g r) (mkS c p (upd i (mkW ms (outb w ++ [f t]) false) ws) g (r ++ [t]))
  | s_weoq i c p ws g r w ms :
      nth_error ws i = Some w -> fin w = false -> inb w = EOQ :: ms ->
      step m (mkS c p ws g r) (mkS c p (upd i (mkW ms (outb w) true) ws) g r)
  | s_bar p ws g r :
      forallb fin ws = true -> step m (mkS RBar p ws g r) (mkS RDone p ws g r).

  (* ---- termination measure ---- *)
  Definition is_task (x : msg) := match x with Task _ => 1 | EOQ => 0 end.
  Definition is_eoq (x : msg) := match x with Task _ => 0 | EOQ => 1 end.
  Definition wm (w : worker) : nat :=
    3 * nsum (map is_task (inb w)) + 2 * length (outb w) + nsum (map is_eoq (inb w)).
  Definition pcw (c : rpc) (L : nat) : nat :=
    match c with RInit k _ => 3 + 2 * (L - k) | RLoop _ => 2 | RBar => 1 | RDone => 0 end.
  Definition mu (s : st) : nat :=
    4 * length (pend s) + nsum (map wm (ws s)) + pcw (pc s) (length (ws s)).

  (* ---- initial state, reachability ---- *)
  Definition init (tasks : list T) (n : nat) : st :=
    mkS (RInit 0 0) tasks (repeat (mkW [] [] false) n) [] [].

  Inductive reach (m : mode) (s0 : st) : st -> Prop :=
  | reach_refl : reach m s0 s0
  | reach_step s s' : reach m s0 s -> step m s s' -> reach m s0 s'.

  Inductive steps (m : mode) : nat -> st -> st -> Prop :=
  | steps_O s : steps m 0 s s
  | steps_S n s s' s'' : step m s s' -> steps m n s' s'' -> steps m (S n) s s''.

  Definition has_allowed_below (k : nat) : Prop := exists j, j < k /\ allowed j = true.

  (* ---- executable step ---- *)
  Definition is_nil {A} (l : list A) : bool := match l with [] => true | _ => false end.

  Definition step_with (m : mode) (c : choice) (s : st) : option st :=
    let l := ws s in
    match c with
    | CInitTask k' =>
        match pc s, pend s, nth_error l k' with
        | RInit k a, t :: p, Some w =>
            if (k' =? k) && allowed k && root_ok m l
            then Some (mkS (RInit (S k) (S a)) p (upd k (mkW (inb w ++ [Task t]) (outb w) (fin w)) l) (got s) (ran s))
            else None
        | _, _, _ => None
        end
    | CInitEoq k' =>
        match pc s, nth_error l k' with
        | RInit k a, Some w =>
            if (k' =? k) && (negb (allowed k) || is_nil (pend s)) && root_ok m l
            then Some (mkS (RInit (S k) a) (pend s) (upd k (mkW (inb w ++ [EOQ]) (outb w) (fin w)) l) (got s) (ran s))
            else None
        | _, _ => None
        end
    | CInitDone =>
        match pc s with
        | RInit k a => if (k =? length l) && root_ok m l then Some (mkS (RLoop a) (pend s) l (got s) (ran s)) else None
        | _ => None
        end
    | CRecvMore i =>
        match pc s, pend s, nth_error l i with
        | RLoop (S a), t :: p, Some w =>
            match outb w with
            | x :: xs => if root_ok m l
                         then Some (mkS (RLoop (S a)) p (upd i (mkW (inb w ++ [Task t]) xs (fin w)) l) (got s ++ [x]) (ran s))
                         else None
            | [] => None
            end
        | _, _, _ => None
        end
    | CRecvLast i =>
        match pc s, pend s, nth_error l i with
        | RLoop (S a), [], Some w =>
            match outb w with
            | x :: xs => if root_ok m l
                         then Some (mkS (RLoop a) [] (upd i (mkW (inb w ++ [EOQ]) xs (fin w)) l) (got s ++ [x]) (ran s))
                         else None
            | [] => None
            end
        | _, _, _ => None
        end
    | CExit =>
        match pc s with
        | RLoop 0 => if root_ok m l && (negb fb || is_nil (pend s))
                     then Some (mkS RBar (pend s) l (got s) (ran s)) else None
        | _ => None
        end
    | CFallback =>
        match pc s, pend s with
        | RLoop 0, t :: p => if fb && root_ok m l
                             then Some (mkS (RLoop 0) p l (got s ++ [f t]) (ran s ++ [t])) else None
        | _, _ => None
        end
    | CWTask i =>
        match nth_error l i with
        | Some w =>
            match fin w, inb w with
            | false, Task t :: ms => Some (mkS (pc s) (pend s) (upd i (mkW ms (outb w ++ [f t]) false) l) (got s) (ran s ++ [t]))
            | _, _ => None
            end
        | None => None
        end
    | CWEoq i =>
        match nth_error l i with
        | Some w =>
            match fin w, inb w with
            | false, EOQ :: ms => Some (mkS (pc s) (pend s) (upd i (mkW ms (outb w) true) l) (got s) (ran s))
            | _, _ => None
            end
        | None => None
        end
    | CBar =>
        match pc s with
        | RBar => if forallb fin l then Some (mkS RDone (pend s) l (got s) (ran s)) else None
        | _ => None
        end
    end.

  (* replay a list of choices; None as soon as a choice is not enabled *)
  Fixpoint run (m : mode) (cs : list choice) (s : st) : option st :=
    match cs with
    | [] => Some s
    | c :: cs' => match step_with m c s with Some s' => run m cs' s' | None => None end
    end.
  (* index of the first choice that is not enabled (length cs if all are) *)
  Fixpoint first_disabled (m : mode) (cs : list choice) (s : st) : nat :=
    match cs with
    | [] => 0
    | c :: cs' => match step_with m c s with Some s' => S (first_disabled m cs' s') | None => 0 end
    end.
End Dispatch.

Arguments msg : clear implicits.
Arguments worker : clear implicits.
Arguments st : clear implicits.
Arguments EOQ {T}.

(* ---------- correspondence checker for C06 (i) ---------- *)
(* tasks are natural numbers, the job is t |-> 3t+1 (the harness runs the same function on
   the real iter_unordered); [ranks] is the set `ranks` of iter_unordered (computed by the
   harness from max_workers / rank0_node_only, independently of the run): worker index i is
   allowed iff rank i+1 is in it;
   [fb] selects the algorithm (true = with root fallback, the repaired tree);
   [cs] is the communication log of the real run translated event by event into choices
   (one CFallback per task the job function ran on the root rank);
   impl_got = what the root rank's iterator yielded, in order; impl_ran = the tasks the
   job function was called with on the worker ranks. *)
Fixpoint ninsert (x : nat) (l : list nat) : list nat :=
  match l with [] => [x] | y :: ys => if x <=? y then x :: l else y :: ninsert x ys end.
Definition nsort (l : list nat) : list nat := fold_right ninsert [] l.

Definition c06_f (t : nat) : nat := 3 * t + 1.
Definition c06_allowed (ranks : list nat) (i : nat) : bool := existsb (Nat.eqb (S i)) ranks.
Definition is_done (c : rpc) : bool := match c with RDone => true | _ => false end.

Definition c06_dispatch_case (fb sync : bool) (nworkers : nat) (ranks : list nat) (tasks : list nat)
           (cs : list choice) (impl_got impl_ran : list nat) : nat :=
  let m := if sync then Sync else Eager in
  let al := c06_allowed ranks in
  let s0 := init (R := nat) tasks nworkers in
  let r := run c06_f al fb m cs s0 in
  code [ (* flag0: every logged event is enabled in the model, the model ends in RDone, yields
                   exactly what the implementation's root yielded (same order) and ran the same tasks *)
         match r with
         | Some s => is_done (pc s) && nlist_eqb (got s) impl_got && nlist_eqb (nsort (ran s)) (nsort impl_ran)
         | None => false
         end;
         (* flag1: the property on the implementation's output: root got map f tasks (as a multiset) *)
         nlist_eqb (nsort impl_got) (nsort (map c06_f tasks));
         (* flag2: every task was executed exactly once *)
         nlist_eqb (nsort impl_ran) (nsort tasks) ]
  (* bits 4.. : 1 + index of the first event that is not enabled (0 when all are) *)
  + 16 * match r with Some _ => 0 | None => S (first_disabled c06_f al fb m cs s0) end.


(* ======================================================================================
   Jobs may FAIL (repo commit 32238ed: "an exception in a job on an MPI worker rank left every
   rank blocked").  Extension of the protocol above; the definitions above are unchanged and are
   the special case [fails = fun _ => false] (Proofs/DispatchP.v: estep_with_embed).

   [fails t] = the job raises on task t.  [job t] = what a worker that catches the exception
   sends back: [Ok (f t)] or [Err t] (WorkerError(err); the error is identified by its task).
   Root (_mpi_root_task): remembers the FIRST error it receives ([eerr]); from then on it yields
   nothing and hands out no task: every later result - error or not - is answered with the
   sentinel ([e_recv_drain]); when no worker is active it raises, _mpi_iter_unordered catches it.
   Root fallback (`yield from map(wrapped_func, iterable)`, only reached without an error): the
   first failing task raises ([e_fallback_err]), the rest stays pending.
   Closing collective: every rank enters `error = comm.bcast(error, root=0)`; it completes in ONE
   synchronous step when the root and all workers are there ([e_bar]) and gives every rank the
   root's error flag: [eout] = outcome per rank (index 0 = root), [Some t] = the rank raises the
   error of task t, [None] = it goes on to the Barrier and returns.
   [wcatch = true] is the worker of 32238ed (try/except around the job); [wcatch = false] the
   pinned worker: the exception escapes, the worker leaves without sending ([e_wescape]) - kept
   as documentation of finding F23 group C.
   [eoqn w] counts the sentinels worker w has received. *)
Inductive echoice :=
| EInitTask (k : nat) | EInitEoq (k : nat) | EInitDone
| ERecvMore (i : nat) | ERecvLast (i : nat) | ERecvErr (i : nat) | ERecvDrain (i : nat)
| EFallback | EFallbackErr | EExit
| EWTask (i : nat) | EWEscape (i : nat) | EWEoq (i : nat) | EBar.

Section DispatchE.
  Context {T R : Type}.
  Context (f : T -> R) (fails : T -> bool).
  Context (allowed : nat -> bool).
  Context (wcatch : bool).

  Inductive res := Ok (x : R) | Err (t : T).
  Definition job (t : T) : res := if fails t then Err t else Ok (f t).
  Record eworker := mkEW { einb : list (msg T); eoutb : list res; efin : bool; eoqn : nat }.
  Record est := mkES { epc : rpc; epend : list T; ews : list eworker; egot : list R; eran : list T;
                       eerr : option T; eout : list (option T) }.

  Definition enoinb (l : list eworker) : bool := forallb (fun w => is_nil (einb w)) l.
  Definition eroot_ok (m : mode) (l : list eworker) : bool :=
    match m with Eager => true | Sync => enoinb l end.

  Inductive estep (m : mode) : est -> est -> Prop :=
  (* first pass (no error can have been received yet: `error = None` follows it) *)
  | e_init_task k a t p ws g r o w :
      allowed k = true -> nth_error ws k = Some w -> eroot_ok m ws = true ->
      estep m (mkES (RInit k a) (t :: p) ws g r None o)
              (mkES (RInit (S k) (S a)) p (upd k (mkEW (einb w ++ [Task t]) (eoutb w) (efin w) (eoqn w)) ws) g r None o)
  | e_init_eoq k a p ws g r o w :
      (allowed k = false \/ p = []) -> nth_error ws k = Some w -> eroot_ok m ws = true ->
      estep m (mkES (RInit k a) p ws g r None o)
              (mkES (RInit (S k) a) p (upd k (mkEW (einb w ++ [EOQ]) (eoutb w) (efin w) (eoqn w)) ws) g r None o)
  | e_init_done k a p ws g r o :
      k = length ws -> eroot_ok m ws = true ->
      estep m (mkES (RInit k a) p ws g r None o) (mkES (RLoop a) p ws g r None o)
  (* a result, no error so far, a task is pending: yield, hand out the next task *)
  | e_recv_more i a t p ws g r o w x xs :
      nth_error ws i = Some w -> eoutb w = Ok x :: xs -> eroot_ok m ws = true ->
      estep m (mkES (RLoop (S a)) (t :: p) ws g r None o)
              (mkES (RLoop (S a)) p (upd i (mkEW (einb w ++ [Task t]) xs (efin w) (eoqn w)) ws) (g ++ [x]) r None o)
  (* a result, no error so far, nothing pending: yield, sentinel *)
  | e_recv_last i a ws g r o w x xs :
      nth_error ws i = Some w -> eoutb w = Ok x :: xs -> eroot_ok m ws = true ->
      estep m (mkES (RLoop (S a)) [] ws g r None o)
              (mkES (RLoop a) [] (upd i (mkEW (einb w ++ [EOQ]) xs (efin w) (eoqn w)) ws) (g ++ [x]) r None o)
  (* the FIRST error: remember it, no yield, no new task although some may be pending, sentinel *)
  | e_recv_err i a p ws g r o w t' xs :
      nth_error ws i = Some w -> eoutb w = Err t' :: xs -> eroot_ok m ws = true ->
      estep m (mkES (RLoop (S a)) p ws g r None o)
              (mkES (RLoop a) p (upd i (mkEW (einb w ++ [EOQ]) xs (efin w) (eoqn w)) ws) g r (Some t') o)
  (* any message after the first error: dropped, sentinel *)
  | e_recv_drain i a p ws g r o w y xs e :
      nth_error ws i = Some w -> eoutb w = y :: xs -> eroot_ok m ws = true ->
      estep m (mkES (RLoop (S a)) p ws g r (Some e) o)
              (mkES (RLoop a) p (upd i (mkEW (einb w ++ [EOQ]) xs (efin w) (eoqn w)) ws) g r (Some e) o)
  (* no worker active: with an error the root raises (caught in _mpi_iter_unordered), without
     one it first runs whatever is still pending itself; then it enters the broadcast *)
  | e_exit p ws g r e o :
      eroot_ok m ws = true -> (e = None -> p = []) ->
      estep m (mkES (RLoop 0) p ws g r e o) (mkES RBar p ws g r e o)
  | e_fallback t p ws g r o :
      eroot_ok m ws = true -> fails t = false ->
      estep m (mkES (RLoop 0) (t :: p) ws g r None o) (mkES (RLoop 0) p ws (g ++ [f t]) (r ++ [t]) None o)
  | e_fallback_err t p ws g r o :
      eroot_ok m ws = true -> fails t = true ->
      estep m (mkES (RLoop 0) (t :: p) ws g r None o) (mkES (RLoop 0) p ws g (r ++ [t]) (Some t) o)
  (* worker: run the job, send the result or (wcatch) the error *)
  | e_wtask i c p ws g r e o w t ms :
      nth_error ws i = Some w -> efin w = false -> einb w = Task t :: ms ->
      (wcatch = true \/ fails t = false) ->
      estep m (mkES c p ws g r e o)
              (mkES c p (upd i (mkEW ms (eoutb w ++ [job t]) false (eoqn w)) ws) g (r ++ [t]) e o)
  (* pinned worker: the exception escapes _mpi_worker_task, the rank leaves, nothing is sent *)
  | e_wescape i c p ws g r e o w t ms :
      nth_error ws i = Some w -> efin w = false -> einb w = Task t :: ms ->
      wcatch = false -> fails t = true ->
      estep m (mkES c p ws g r e o)
              (mkES c p (upd i (mkEW ms (eoutb w) true (eoqn w)) ws) g (r ++ [t]) e o)
  | e_weoq i c p ws g r e o w ms :
      nth_error ws i = Some w -> efin w = false -> einb w = EOQ :: ms ->
      estep m (mkES c p ws g r e o) (mkES c p (upd i (mkEW ms (eoutb w) true (S (eoqn w))) ws) g r e o)
  (* the closing broadcast of the error flag: one synchronous step, every rank gets the root's flag *)
  | e_bar p ws g r e o :
      forallb efin ws = true ->
      estep m (mkES RBar p ws g r e o) (mkES RDone p ws g r e (repeat e (S (length ws)))).

  (* ---- termination measure ---- *)
  Definition ewm (w : eworker) : nat :=
    3 * nsum (map is_task (einb w)) + 2 * length (eoutb w) + nsum (map is_eoq (einb w)).
  Definition emu (s : est) : nat :=
    4 * length (epend s) + nsum (map ewm (ews s)) + pcw (epc s) (length (ews s)).

  Definition einit (tasks : list T) (n : nat) : est :=
    mkES (RInit 0 0) tasks (repeat (mkEW [] [] false 0) n) [] [] None [].

  Inductive ereach (m : mode) (s0 : est) : est -> Prop :=
  | ereach_refl : ereach m s0 s0
  | ereach_step s s' : ereach m s0 s -> estep m s s' -> ereach m s0 s'.

  Inductive esteps (m : mode) : nat -> est -> est -> Prop :=
  | esteps_O s : esteps m 0 s s
  | esteps_S n s s' s'' : estep m s s' -> esteps m n s' s'' -> esteps m (S n) s s''.

  (* nothing can move although the run is not over *)
  Definition estuck (m : mode) (s : est) : Prop := epc s <> RDone /\ forall s', ~ estep m s s'.

  (* the single-process run: tasks in order, the first failing task raises
     (ran, yielded, error, not run) *)
  Fixpoint seqrun (ran : list T) (got : list R) (p : list T) : list T * list R * option T * list T :=
    match p with
    | [] => (ran, got, None, [])
    | t :: p' => if fails t then (ran ++ [t], got, Some t, p') else seqrun (ran ++ [t]) (got ++ [f t]) p'
    end.

  (* ---- executable step ---- *)
  Definition eset (s : est) (c : rpc) (p : list T) (l : list eworker) (g : list R) (r : list T) (e : option T) : est :=
    mkES c p l g r e (eout s).

  Definition estep_with (m : mode) (c : echoice) (s : est) : option est :=
    let l := ews s in
    match c with
    | EInitTask k' =>
        match epc s, epend s, nth_error l k', eerr s with
        | RInit k a, t :: p, Some w, None =>
            if (k' =? k) && allowed k && eroot_ok m l
            then Some (eset s (RInit (S k) (S a)) p (upd k (mkEW (einb w ++ [Task t]) (eoutb w) (efin w) (eoqn w)) l) (egot s) (eran s) None)
            else None
        | _, _, _, _ => None
        end
    | EInitEoq k' =>
        match epc s, nth_error l k', eerr s with
        | RInit k a, Some w, None =>
            if (k' =? k) && (negb (allowed k) || is_nil (epend s)) && eroot_ok m l
            then Some (eset s (RInit (S k) a) (epend s) (upd k (mkEW (einb w ++ [EOQ]) (eoutb w) (efin w) (eoqn w)) l) (egot s) (eran s) None)
            else None
        | _, _, _ => None
        end
    | EInitDone =>
        match epc s, eerr s with
        | RInit k a, None => if (k =? length l) && eroot_ok m l then Some (eset s (RLoop a) (epend s) l (egot s) (eran s) None) else None
        | _, _ => None
        end
    | ERecvMore i =>
        match epc s, epend s, nth_error l i, eerr s with
        | RLoop (S a), t :: p, Some w, None =>
            match eoutb w with
            | Ok x :: xs => if eroot_ok m l
                            then Some (eset s (RLoop (S a)) p (upd i (mkEW (einb w ++ [Task t]) xs (efin w) (eoqn w)) l) (egot s ++ [x]) (eran s) None)
                            else None
            | _ => None
            end
        | _, _, _, _ => None
        end
    | ERecvLast i =>
        match epc s, epend s, nth_error l i, eerr s with
        | RLoop (S a), [], Some w, None =>
            match eoutb w with
            | Ok x :: xs => if eroot_ok m l
                            then Some (eset s (RLoop a) [] (upd i (mkEW (einb w ++ [EOQ]) xs (efin w) (eoqn w)) l) (egot s ++ [x]) (eran s) None)
                            else None
            | _ => None
            end
        | _, _, _, _ => None
        end
    | ERecvErr i =>
        match epc s, nth_error l i, eerr s with
        | RLoop (S a), Some w, None =>
            match eoutb w with
            | Err t' :: xs => if eroot_ok m l
                              then Some (eset s (RLoop a) (epend s) (upd i (mkEW (einb w ++ [EOQ]) xs (efin w) (eoqn w)) l) (egot s) (eran s) (Some t'))
                              else None
            | _ => None
            end
        | _, _, _ => None
        end
    | ERecvDrain i =>
        match epc s, nth_error l i, eerr s with
        | RLoop (S a), Some w, Some e =>
            match eoutb w with
            | _ :: xs => if eroot_ok m l
                         then Some (eset s (RLoop a) (epend s) (upd i (mkEW (einb w ++ [EOQ]) xs (efin w) (eoqn w)) l) (egot s) (eran s) (Some e))
                         else None
            | [] => None
            end
        | _, _, _ => None
        end
    | EExit =>
        match epc s with
        | RLoop 0 => if eroot_ok m l && (match eerr s with None => is_nil (epend s) | Some _ => true end)
                     then Some (eset s RBar (epend s) l (egot s) (eran s) (eerr s)) else None
        | _ => None
        end
    | EFallback =>
        match epc s, epend s, eerr s with
        | RLoop 0, t :: p, None => if eroot_ok m l && negb (fails t)
                                   then Some (eset s (RLoop 0) p l (egot s ++ [f t]) (eran s ++ [t]) None) else None
        | _, _, _ => None
        end
    | EFallbackErr =>
        match epc s, epend s, eerr s with
        | RLoop 0, t :: p, None => if eroot_ok m l && fails t
                                   then Some (eset s (RLoop 0) p l (egot s) (eran s ++ [t]) (Some t)) else None
        | _, _, _ => None
        end
    | EWTask i =>
        match nth_error l i with
        | Some w =>
            match efin w, einb w with
            | false, Task t :: ms =>
                if wcatch || negb (fails t)
                then Some (eset s (epc s) (epend s) (upd i (mkEW ms (eoutb w ++ [job t]) false (eoqn w)) l) (egot s) (eran s ++ [t]) (eerr s))
                else None
            | _, _ => None
            end
        | None => None
        end
    | EWEscape i =>
        match nth_error l i with
        | Some w =>
            match efin w, einb w with
            | false, Task t :: ms =>
                if negb wcatch && fails t
                then Some (eset s (epc s) (epend s) (upd i (mkEW ms (eoutb w) true (eoqn w)) l) (egot s) (eran s ++ [t]) (eerr s))
                else None
            | _, _ => None
            end
        | None => None
        end
    | EWEoq i =>
        match nth_error l i with
        | Some w =>
            match efin w, einb w with
            | false, EOQ :: ms => Some (eset s (epc s) (epend s) (upd i (mkEW ms (eoutb w) true (S (eoqn w))) l) (egot s) (eran s) (eerr s))
            | _, _ => None
            end
        | None => None
        end
    | EBar =>
        match epc s with
        | RBar => if forallb efin l
                  then Some (mkES RDone (epend s) l (egot s) (eran s) (eerr s) (repeat (eerr s) (S (length l)))) else None
        | _ => None
        end
    end.

  Fixpoint erun (m : mode) (cs : list echoice) (s : est) : option est :=
    match cs with
    | [] => Some s
    | c :: cs' => match estep_with m c s with Some s' => erun m cs' s' | None => None end
    end.
  Fixpoint efirst_disabled (m : mode) (cs : list echoice) (s : est) : nat :=
    match cs with
    | [] => 0
    | c :: cs' => match estep_with m c s with Some s' => S (efirst_disabled m cs' s') | None => 0 end
    end.
  (* every choice the model offers in a state (for the stuck-state refutation): no choice with
     a worker index below [n] or a root choice is enabled *)
  Definition echoices (n : nat) : list echoice :=
    [EInitDone; EFallback; EFallbackErr; EExit; EBar]
    ++ flat_map (fun i => [EInitTask i; EInitEoq i; ERecvMore i; ERecvLast i; ERecvErr i; ERecvDrain i;
                           EWTask i; EWEscape i; EWEoq i]) (seq 0 n).
  Definition enone_enabled (m : mode) (s : est) : bool :=
    forallb (fun c => match estep_with m c s with None => true | Some _ => false end) (echoices (length (ews s))).
End DispatchE.

Arguments res : clear implicits.
Arguments eworker : clear implicits.
Arguments est : clear implicits.
Arguments Err {T R}.
Arguments Ok {T R}.

(* ---- the error-free protocol above is the special case: embedding of its states/choices ---- *)
Definition embW {T R} (w : worker T R) : eworker T R :=
  mkEW (inb w) (map (@Ok T R) (outb w)) (fin w) (if fin w then 1 else 0).
Definition embed {T R} (s : st T R) : est T R :=
  mkES (pc s) (pend s) (map embW (ws s)) (got s) (ran s) None
       (if is_done (pc s) then repeat None (S (length (ws s))) else []).
Definition lift (c : choice) : echoice :=
  match c with
  | CInitTask k => EInitTask k | CInitEoq k => EInitEoq k | CInitDone => EInitDone
  | CRecvMore i => ERecvMore i | CRecvLast i => ERecvLast i | CFallback => EFallback | CExit => EExit
  | CWTask i => EWTask i | CWEoq i => EWEoq i | CBar => EBar
  end.

(* ---------- correspondence checker for C06 (i'), jobs that may fail ---------- *)
(* as c06_dispatch_case; [bad] = the task values for which the job raises; [cs] = the
   communication log translated event by event (the root's answer to a received result tells
   more / last / first error / drained); impl_got = what the root's iterator yielded before it
   ended (exact_got = false: only how many results); impl_ran = the tasks the job function was
   called with on any rank; impl_out = how iter_unordered ended per rank, index = rank:
   None = returned, Some t = raised the error of task t. *)
Definition c06_fails (bad : list nat) (t : nat) : bool := existsb (Nat.eqb t) bad.
Definition onat_eqb (a b : option nat) : bool :=
  match a, b with None, None => true | Some x, Some y => x =? y | _, _ => false end.
Fixpoint nremove1 (x : nat) (l : list nat) : option (list nat) :=
  match l with
  | [] => None
  | y :: ys => if x =? y then Some ys else match nremove1 x ys with Some r => Some (y :: r) | None => None end
  end.
(* multiset inclusion *)
Fixpoint nsubm (a b : list nat) : bool :=
  match a with
  | [] => true
  | x :: a' => match nremove1 x b with Some b' => nsubm a' b' | None => false end
  end.

Definition c06_edispatch_case (sync : bool) (nworkers : nat) (ranks tasks bad : list nat)
           (cs : list echoice) (exact_got : bool) (impl_got impl_ran : list nat)
           (impl_out : list (option nat)) : nat :=
  let m := if sync then Sync else Eager in
  let al := c06_allowed ranks in
  let fl := c06_fails bad in
  let s0 := einit (R := nat) tasks nworkers in
  let r := erun c06_f fl al true m cs s0 in
  let raised := match impl_out with o :: _ => o | [] => None end in
  let okran := map c06_f (filter (fun t => negb (fl t)) impl_ran) in
  code [ (* flag0: every logged event is enabled in the model; the model ends after the closing
                   broadcast, yielded what the root yielded (same order), ran the same tasks and
                   every rank ends as observed *)
         match r with
         | Some s => is_done (epc s)
                     && (if exact_got then nlist_eqb (egot s) impl_got else length (egot s) =? length impl_got)
                     && nlist_eqb (nsort (eran s)) (nsort impl_ran)
                     && list_eqb onat_eqb (eout s) impl_out
         | None => false
         end;
         (* flag1: all ranks end iter_unordered the same way *)
         (length impl_out =? S nworkers) && forallb (onat_eqb raised) impl_out;
         (* flag2: they raise iff some executed task fails, and then the error of an executed failing task *)
         match raised with
         | None => negb (existsb fl impl_ran)
         | Some t => fl t && existsb (Nat.eqb t) impl_ran
         end;
         (* flag3: every task is executed at most once *)
         nsubm impl_ran tasks;
         (* flag4: what was yielded are results of distinct executed tasks that did not fail *)
         (if exact_got then nsubm impl_got okran else length impl_got <=? length okran);
         (* flag5: without an error every task was executed and the root got map f tasks *)
         match raised with
         | None => nlist_eqb (nsort impl_ran) (nsort tasks)
                   && (if exact_got then nlist_eqb (nsort impl_got) (nsort (map c06_f tasks))
                       else length impl_got =? length tasks)
         | Some _ => true
         end ]
  + 64 * match r with Some _ => 0 | None => S (efirst_disabled c06_f fl al true m cs s0) end.


(* ======================================================================================
   The CONSUMER of the root's iterator (the caller of iter_unordered on rank 0).
   _mpi_root_task is a generator: between receiving a result and answering the worker (next task
   or sentinel) it is SUSPENDED at `yield result` and resumes only when the consumer asks for the
   next item.  Every caller in the library exhausts the iterator (dict comprehension, deque, for
   loop, optionally through utils.logging.Indicator when progress=True); the protocol above is
   that case.  A consumer that stops after its k-th item (a wrapper that breaks once it has seen
   the expected number of items, itertools.islice, zip with a shorter first argument ...) never
   resumes the generator: the answer to the worker that delivered the k-th result is never sent,
   nor any later one, and the root never enters the closing collective.

   [qstop = None]: the consumer is still consuming - the steps of the protocol above, as long as
   they do not deliver the k-th item.  The k-th item is delivered by [q_stop_recv] (a worker's
   result: received, yielded, NOT answered) or [q_stop_fallback] (a task the root ran itself);
   [qstop = Some (Some i)] / [Some None] remembers which.  Afterwards the root makes no move in
   this protocol, the workers go on ([wstep]). *)
Inductive qchoice := QRun (c : choice) | QStopRecv (i : nat) | QStopFallback.

Section DispatchQ.
  Context {T R : Type}.
  Context (f : T -> R).
  Context (allowed : nat -> bool).
  Context (fb : bool).

  Record qst := mkQ { qs : st T R; qstop : option (option nat) }.

  (* the worker moves of [step] *)
  Inductive wstep : st T R -> st T R -> Prop :=
  | w_task i c p ws g r w t ms :
      nth_error ws i = Some w -> fin w = false -> inb w = Task t :: ms ->
      wstep (mkS c p ws g r) (mkS c p (upd i (mkW ms (outb w ++ [f t]) false) ws) g (r ++ [t]))
  | w_eoq i c p ws g r w ms :
      nth_error ws i = Some w -> fin w = false -> inb w = EOQ :: ms ->
      wstep (mkS c p ws g r) (mkS c p (upd i (mkW ms (outb w) true) ws) g r).

  Inductive qstep (m : mode) (k : nat) : qst -> qst -> Prop :=
  | q_run s s' :
      step f allowed fb m s s' -> length (got s') < k ->
      qstep m k (mkQ s None) (mkQ s' None)
  | q_stop_recv i a p ws g r w x xs :
      nth_error ws i = Some w -> outb w = x :: xs -> root_ok m ws = true -> S (length g) = k ->
      qstep m k (mkQ (mkS (RLoop (S a)) p ws g r) None)
                (mkQ (mkS (RLoop (S a)) p (upd i (mkW (inb w) xs (fin w)) ws) (g ++ [x]) r) (Some (Some i)))
  | q_stop_fallback t p ws g r :
      fb = true -> root_ok m ws = true -> S (length g) = k ->
      qstep m k (mkQ (mkS (RLoop 0) (t :: p) ws g r) None)
                (mkQ (mkS (RLoop 0) p ws (g ++ [f t]) (r ++ [t])) (Some None))
  | q_worker s s' who :
      wstep s s' -> qstep m k (mkQ s (Some who)) (mkQ s' (Some who)).

  Definition qinit (tasks : list T) (n : nat) : qst := mkQ (init tasks n) None.

  Inductive qreach (m : mode) (k : nat) (s0 : qst) : qst -> Prop :=
  | qreach_refl : qreach m k s0 s0
  | qreach_step s s' : qreach m k s0 s -> qstep m k s s' -> qreach m k s0 s'.

  Inductive qsteps (m : mode) (k : nat) : nat -> qst -> qst -> Prop :=
  | qsteps_O s : qsteps m k 0 s s
  | qsteps_S n s s' s'' : qstep m k s s' -> qsteps m k n s' s'' -> qsteps m k (S n) s s''.

  (* nothing can move *)
  Definition qstuck (m : mode) (k : nat) (s : qst) : Prop := forall s', ~ qstep m k s s'.
  (* every worker is out of its loop or waits in recv(source=0) with nothing in flight to it *)
  Definition qquiet (s : qst) : bool := forallb (fun w => is_nil (inb w) || fin w) (ws (qs s)).

  (* ---- executable step ---- *)
  Definition is_wchoice (c : choice) : bool := match c with CWTask _ | CWEoq _ => true | _ => false end.

  Definition qstep_with (m : mode) (k : nat) (c : qchoice) (s : qst) : option qst :=
    let b := qs s in
    match c, qstop s with
    | QRun c', None =>
        match step_with f allowed fb m c' b with
        | Some b' => if length (got b') <? k then Some (mkQ b' None) else None
        | None => None
        end
    | QRun c', Some who =>
        if is_wchoice c'
        then match step_with f allowed fb m c' b with Some b' => Some (mkQ b' (Some who)) | None => None end
        else None
    | QStopRecv i, None =>
        match pc b, nth_error (ws b) i with
        | RLoop (S a), Some w =>
            match outb w with
            | x :: xs =>
                if root_ok m (ws b) && (S (length (got b)) =? k)
                then Some (mkQ (mkS (RLoop (S a)) (pend b) (upd i (mkW (inb w) xs (fin w)) (ws b)) (got b ++ [x]) (ran b))
                               (Some (Some i)))
                else None
            | [] => None
            end
        | _, _ => None
        end
    | QStopFallback, None =>
        match pc b, pend b with
        | RLoop 0, t :: p =>
            if fb && root_ok m (ws b) && (S (length (got b)) =? k)
            then Some (mkQ (mkS (RLoop 0) p (ws b) (got b ++ [f t]) (ran b ++ [t])) (Some None))
            else None
        | _, _ => None
        end
    | _, _ => None
    end.

  Fixpoint qrun (m : mode) (k : nat) (cs : list qchoice) (s : qst) : option qst :=
    match cs with
    | [] => Some s
    | c :: cs' => match qstep_with m k c s with Some s' => qrun m k cs' s' | None => None end
    end.
  Fixpoint qfirst_disabled (m : mode) (k : nat) (cs : list qchoice) (s : qst) : nat :=
    match cs with
    | [] => 0
    | c :: cs' => match qstep_with m k c s with Some s' => S (qfirst_disabled m k cs' s') | None => 0 end
    end.
End DispatchQ.

Arguments qst : clear implicits.

(* ---------- correspondence checker for C06 (i''), a consumer that stops after k items ---------- *)
(* as c06_dispatch_case (repaired algorithm, root fallback); [k] = the number of items after which
   the root's consumer stops asking; [cs] = the communication log translated event by event (the
   root's receive that is never answered is QStopRecv, the k-th task the root ran itself
   QStopFallback); impl_got = what the consumer got, impl_ran = the tasks the job function was
   called with on any rank, impl_ret = per rank (index = rank) whether the call came back.
   The property says nothing about such a consumer (no entry point of the library stops early):
   only flag0, the tie between model and implementation - the model run ends either after the
   closing collective with the consumer still consuming (then every rank came back), or stopped
   with every worker quiet, i.e. in a state in which nothing can move (Proofs: qquiet_stuck; then
   only the root came back). *)
Definition is_stopped {T R} (s : qst T R) : bool := match qstop s with Some _ => true | None => false end.

Definition c06_qdispatch_case (sync : bool) (nworkers : nat) (ranks tasks : list nat) (k : nat)
           (cs : list qchoice) (impl_got impl_ran : list nat) (impl_ret : list bool) : nat :=
  let m := if sync then Sync else Eager in
  let al := c06_allowed ranks in
  let s0 := qinit (R := nat) tasks nworkers in
  let r := qrun c06_f al true m k cs s0 in
  code [ match r with
         | Some s =>
             nlist_eqb (got (qs s)) impl_got && nlist_eqb (nsort (ran (qs s))) (nsort impl_ran)
             && (length impl_ret =? S nworkers)
             && (if is_stopped s
                 then qquiet s && (length impl_got =? k)
                      && list_eqb Bool.eqb impl_ret (true :: repeat false nworkers)
                 else is_done (pc (qs s)) && list_eqb Bool.eqb impl_ret (repeat true (S nworkers)))
         | None => false
         end ]
  + 2 * match r with Some _ => 0 | None => S (qfirst_disabled c06_f al true m k cs s0) end.
