(* Model of utils/parallel.py: _mpi_root_task / _mpi_worker_task / _mpi_iter_unordered
   (ported from design_probes/Dispatch.v, extended by the send mode and an executable step).

   ws[i] is rank i+1.  Per worker there are two FIFO channels: [inb] root -> worker (tag 1,
   tasks and the end-of-queue sentinel) and [outb] worker -> root (tag 2, results).  The
   root's wildcard receive takes the head of ANY non-empty [outb].  [allowed i] is
   "rank i+1 is in `ranks`".

   Send mode: [Eager] a send only enqueues.  [Sync] (rendezvous) a send returns when the
   message has been received: the root can make its next move only when every message it
   sent has been taken, i.e. all [inb] are empty.  (A worker that has sent its result does
   nothing until the root answers in either mode, so the worker side needs no extra premise.)

   Root fallback [fb]: the repaired _mpi_iter_unordered (commit cd002ec) lets the root, after
   _mpi_root_task has returned, run every task that is still pending itself, in order
   (`yield from map(wrapped_func, iterable)`), and only then enter the barrier.  [fb = true] is
   that algorithm; [fb = false] is the pinned one ("_cur" variant: the root goes to the barrier
   with whatever is still pending), kept as documentation of finding F13a.

   No proofs in this file. *)
From Verif Require Import Prelude.
From Coq Require Import Permutation.
Open Scope nat_scope.
Set Implicit Arguments.

Inductive rpc := RInit (k active : nat) | RLoop (active : nat) | RBar | RDone.
Inductive mode := Eager | Sync.
Inductive choice :=
| CInitTask (k : nat) | CInitEoq (k : nat) | CInitDone
| CRecvMore (i : nat) | CRecvLast (i : nat) | CFallback | CExit
| CWTask (i : nat) | CWEoq (i : nat) | CBar.

Definition upd {A} (i : nat) (x : A) (l : list A) : list A := firstn i l ++ x :: skipn (S i) l.
Fixpoint nsum (l : list nat) := match l with [] => 0 | x :: xs => x + nsum xs end.

Section Dispatch.
  Context {T R : Type}.
  Context (f : T -> R).
  Context (allowed : nat -> bool).
  Context (fb : bool).

  Inductive msg := Task (t : T) | EOQ.
  Record worker := mkW { inb : list msg; outb : list R; fin : bool }.
  Record st := mkS { pc : rpc; pend : list T; ws : list worker; got : list R; ran : list T }.

  Definition noinb (l : list worker) : bool :=
    forallb (fun w => match inb w with [] => true | _ => false end) l.
  Definition root_ok (m : mode) (l : list worker) : bool :=
    match m with Eager => true | Sync => noinb l end.

  Inductive step (m : mode) : st -> st -> Prop :=
  | s_init_task k a t p ws g r w :
      allowed k = true -> nth_error ws k = Some w -> root_ok m ws = true ->
      step m (mkS (RInit k a) (t :: p) ws g r)
             (mkS (RInit (S k) (S a)) p (upd k (mkW (inb w ++ [Task t]) (outb w) (fin w)) ws) g r)
  | s_init_eoq k a p ws g r w :
      (allowed k = false \/ p = []) -> nth_error ws k = Some w -> root_ok m ws = true ->
      step m (mkS (RInit k a) p ws g r)
             (mkS (RInit (S k) a) p (upd k (mkW (inb w ++ [EOQ]) (outb w) (fin w)) ws) g r)
  | s_init_done k a p ws g r :
      k = length ws -> root_ok m ws = true ->
      step m (mkS (RInit k a) p ws g r) (mkS (RLoop a) p ws g r)
  | s_recv_more i a t p ws g r w x xs :
      nth_error ws i = Some w -> outb w = x :: xs -> root_ok m ws = true ->
      step m (mkS (RLoop (S a)) (t :: p) ws g r)
             (mkS (RLoop (S a)) p (upd i (mkW (inb w ++ [Task t]) xs (fin w)) ws) (g ++ [x]) r)
  | s_recv_last i a ws g r w x xs :
      nth_error ws i = Some w -> outb w = x :: xs -> root_ok m ws = true ->
      step m (mkS (RLoop (S a)) [] ws g r)
             (mkS (RLoop a) [] (upd i (mkW (inb w ++ [EOQ]) xs (fin w)) ws) (g ++ [x]) r)
  | s_exit p ws g r :
      root_ok m ws = true -> (fb = true -> p = []) ->
      step m (mkS (RLoop 0) p ws g r) (mkS RBar p ws g r)
  | s_fallback t p ws g r :
      fb = true -> root_ok m ws = true ->
      step m (mkS (RLoop 0) (t :: p) ws g r) (mkS (RLoop 0) p ws (g ++ [f t]) (r ++ [t]))
  | s_wtask i c p ws g r w t ms :
      nth_error ws i = Some w -> fin w = false -> inb w = Task t :: ms ->
      step m (mkS c p ws g r) (mkS c p (upd i (mkW ms (outb w ++ [f t]) false) ws) g (r ++ [t]))
  | s_weoq i c p ws g r w ms :
      nth_error ws i = Some w -> fin w = false -> inb w = EOQ :: ms ->
      step m (mkS c p ws g r) (mkS c p (upd i (mkW ms (outb w) true) ws) g r)
  | s_bar p ws g r :
      forallb fin ws = true -> step m (mkS RBar p ws g r) (mkS RDone p ws g r).

  (* ---- termination measure ---- *)
  Definition is_task (x : msg) := match x with Task _ => 1 | EOQ => 0 end.
  Definition is_eoq (x : msg) := match x with Task _ => 0 | EOQ => 1 end.
  Definition wm (w : worker) : nat :=
    3 * nsum (map is_task (inb w)) + 2 * length (outb w) + nsum (map is_eoq (inb w)).
  Definition pcw (c : rpc) (L : nat) : nat :=
    match c with RInit k _ => 3 + 2 * (L - k) | RLoop _ => 2 | RBar => 1 | RDone => 0 end.
  Definition mu (s : st) : nat :=
    4 * length (pend s) + nsum (map wm (ws s)) + pcw (pc s) (length (ws s)).

  (* ---- initial state, reachability ---- *)
  Definition init (tasks : list T) (n : nat) : st :=
    mkS (RInit 0 0) tasks (repeat (mkW [] [] false) n) [] [].

  Inductive reach (m : mode) (s0 : st) : st -> Prop :=
  | reach_refl : reach m s0 s0
  | reach_step s s' : reach m s0 s -> step m s s' -> reach m s0 s'.

  Inductive steps (m : mode) : nat -> st -> st -> Prop :=
  | steps_O s : steps m 0 s s
  | steps_S n s s' s'' : step m s s' -> steps m n s' s'' -> steps m (S n) s s''.

  Definition has_allowed_below (k : nat) : Prop := exists j, j < k /\ allowed j = true.

  (* ---- executable step ---- *)
  Definition is_nil {A} (l : list A) : bool := match l with [] => true | _ => false end.

  Definition step_with (m : mode) (c : choice) (s : st) : option st :=
    let l := ws s in
    match c with
    | CInitTask k' =>
        match pc s, pend s, nth_error l k' with
        | RInit k a, t :: p, Some w =>
            if (k' =? k) && allowed k && root_ok m l
            then Some (mkS (RInit (S k) (S a)) p (upd k (mkW (inb w ++ [Task t]) (outb w) (fin w)) l) (got s) (ran s))
            else None
        | _, _, _ => None
        end
    | CInitEoq k' =>
        match pc s, nth_error l k' with
        | RInit k a, Some w =>
            if (k' =? k) && (negb (allowed k) || is_nil (pend s)) && root_ok m l
            then Some (mkS (RInit (S k) a) (pend s) (upd k (mkW (inb w ++ [EOQ]) (outb w) (fin w)) l) (got s) (ran s))
            else None
        | _, _ => None
        end
    | CInitDone =>
        match pc s with
        | RInit k a => if (k =? length l) && root_ok m l then Some (mkS (RLoop a) (pend s) l (got s) (ran s)) else None
        | _ => None
        end
    | CRecvMore i =>
        match pc s, pend s, nth_error l i with
        | RLoop (S a), t :: p, Some w =>
            match outb w with
            | x :: xs => if root_ok m l
                         then Some (mkS (RLoop (S a)) p (upd i (mkW (inb w ++ [Task t]) xs (fin w)) l) (got s ++ [x]) (ran s))
                         else None
            | [] => None
            end
        | _, _, _ => None
        end
    | CRecvLast i =>
        match pc s, pend s, nth_error l i with
        | RLoop (S a), [], Some w =>
            match outb w with
            | x :: xs => if root_ok m l
                         then Some (mkS (RLoop a) [] (upd i (mkW (inb w ++ [EOQ]) xs (fin w)) l) (got s ++ [x]) (ran s))
                         else None
            | [] => None
            end
        | _, _, _ => None
        end
    | CExit =>
        match pc s with
        | RLoop 0 => if root_ok m l && (negb fb || is_nil (pend s))
                     then Some (mkS RBar (pend s) l (got s) (ran s)) else None
        | _ => None
        end
    | CFallback =>
        match pc s, pend s with
        | RLoop 0, t :: p => if fb && root_ok m l
                             then Some (mkS (RLoop 0) p l (got s ++ [f t]) (ran s ++ [t])) else None
        | _, _ => None
        end
    | CWTask i =>
        match nth_error l i with
        | Some w =>
            match fin w, inb w with
            | false, Task t :: ms => Some (mkS (pc s) (pend s) (upd i (mkW ms (outb w ++ [f t]) false) l) (got s) (ran s ++ [t]))
            | _, _ => None
            end
        | None => None
        end
    | CWEoq i =>
        match nth_error l i with
        | Some w =>
            match fin w, inb w with
            | false, EOQ :: ms => Some (mkS (pc s) (pend s) (upd i (mkW ms (outb w) true) l) (got s) (ran s))
            | _, _ => None
            end
        | None => None
        end
    | CBar =>
        match pc s with
        | RBar => if forallb fin l then Some (mkS RDone (pend s) l (got s) (ran s)) else None
        | _ => None
        end
    end.

  (* replay a list of choices; None as soon as a choice is not enabled *)
  Fixpoint run (m : mode) (cs : list choice) (s : st) : option st :=
    match cs with
    | [] => Some s
    | c :: cs' => match step_with m c s with Some s' => run m cs' s' | None => None end
    end.
  (* index of the first choice that is not enabled (length cs if all are) *)
  Fixpoint first_disabled (m : mode) (cs : list choice) (s : st) : nat :=
    match cs with
    | [] => 0
    | c :: cs' => match step_with m c s with Some s' => S (first_disabled m cs' s') | None => 0 end
    end.
End Dispatch.

Arguments msg : clear implicits.
Arguments worker : clear implicits.
Arguments st : clear implicits.
Arguments EOQ {T}.

(* ---------- correspondence checker for C06 (i) ---------- *)
(* tasks are natural numbers, the job is t |-> 3t+1 (the harness runs the same function on
   the real iter_unordered); [ranks] is the set `ranks` of iter_unordered (computed by the
   harness from max_workers / rank0_node_only, independently of the run): worker index i is
   allowed iff rank i+1 is in it;
   [fb] selects the algorithm (true = with root fallback, the repaired tree);
   [cs] is the communication log of the real run translated event by event into choices
   (one CFallback per task the job function ran on the root rank);
   impl_got = what the root rank's iterator yielded, in order; impl_ran = the tasks the
   job function was called with on the worker ranks. *)
Fixpoint ninsert (x : nat) (l : list nat) : list nat :=
  match l with [] => [x] | y :: ys => if x <=? y then x :: l else y :: ninsert x ys end.
Definition nsort (l : list nat) : list nat := fold_right ninsert [] l.

Definition c06_f (t : nat) : nat := 3 * t + 1.
Definition c06_allowed (ranks : list nat) (i : nat) : bool := existsb (Nat.eqb (S i)) ranks.
Definition is_done (c : rpc) : bool := match c with RDone => true | _ => false end.

Definition c06_dispatch_case (fb sync : bool) (nworkers : nat) (ranks : list nat) (tasks : list nat)
           (cs : list choice) (impl_got impl_ran : list nat) : nat :=
  let m := if sync then Sync else Eager in
  let al := c06_allowed ranks in
  let s0 := init (R := nat) tasks nworkers in
  let r := run c06_f al fb m cs s0 in
  code [ (* flag0: every logged event is enabled in the model, the model ends in RDone, yields
                   exactly what the implementation's root yielded (same order) and ran the same tasks *)
         match r with
         | Some s => is_done (pc s) && nlist_eqb (got s) impl_got && nlist_eqb (nsort (ran s)) (nsort impl_ran)
         | None => false
         end;
         (* flag1: the property on the implementation's output: root got map f tasks (as a multiset) *)
         nlist_eqb (nsort impl_got) (nsort (map c06_f tasks));
         (* flag2: every task was executed exactly once *)
         nlist_eqb (nsort impl_ran) (nsort tasks) ]
  (* bits 4.. : 1 + index of the first event that is not enabled (0 when all are) *)
  + 16 * match r with Some _ => 0 | None => S (first_disabled c06_f al fb m cs s0) end.
