(* C13: the specification of the measurement (Model/PairCount.v) as a function of labelled,
   weighted points, and the transformations under which it must not change. *)
From Verif Require Import Prelude PairCount.
Open Scope Q_scope.

Section Inv.
  Context {P : Type} (ang : P -> P -> Q).

  (* a labelled object: position, weight, patch *)
  Record lobj := { lp : P; lw : Q; lpatch : nat }.
  Definition lpairs (A B : list lobj) : pairs :=
    flat_map (fun a => map (fun b => (ang (lp a) (lp b), lw a * lw b)) B) A.
  Definition count (lo hi : Q) (A B : list lobj) : Q := w_in lo hi (lpairs A B).
  Definition totw (A : list lobj) : Q := qsum (map lw A).
  (* cross-correlation term: pair weight over the product of total weights *)
  Definition norm_count (lo hi : Q) (A B : list lobj) : Q := count lo hi A B / (totw A * totw B).
  (* jackknife sample k of the specification: everything in patch k removed *)
  Definition without (k : nat) (A : list lobj) : list lobj := filter (fun o => negb (lpatch o =? k)%nat) A.
  Definition loo_count (lo hi : Q) (k : nat) (A B : list lobj) : Q := count lo hi (without k A) (without k B).

  Definition move (phi : P -> P) (o : lobj) : lobj := {| lp := phi (lp o); lw := lw o; lpatch := lpatch o |}.
  Definition relabel (pi : nat -> nat) (o : lobj) : lobj := {| lp := lp o; lw := lw o; lpatch := pi (lpatch o) |}.
  Definition scale (k : Q) (o : lobj) : lobj := {| lp := lp o; lw := k * lw o; lpatch := lpatch o |}.
End Inv.
Arguments lobj : clear implicits.

(* ---------- correspondence checker: two runs of the pipeline must agree ---------- *)
(* exact: counts (and anything computed from identical counts); close: after a division *)
Definition c13_case (exact : bool) (base transformed : list Q) : nat :=
  code [ if exact then qlist_eqb base transformed else list_eqb (fun a b => Qclose tol48 a b || Qeqb a b) base transformed;
         (length base =? length transformed)%nat ].
(* after divisions / differences (amplitudes DD/DR - 1, covariances) values may nearly cancel, so the
   comparison is absolute on the scale of the largest entry: |b_i - t_i| <= 2^-40 * max(1, max_j |b_j|) *)
Definition qabsmax (l : list Q) : Q := fold_right (fun x m => if Qleb m (Qabs x) then Qabs x else m) 1 l.
Definition c13_case_scaled (base transformed : list Q) : nat :=
  let m := qabsmax base in
  code [ list_eqb (fun a b => Qleb (Qabs (a - b)) ((1 # 1099511627776) * m)) base transformed;
         (length base =? length transformed)%nat ].
(* additivity: whole = part1 + part2, entry-wise *)
Fixpoint zipadd (a b : list Q) : list Q :=
  match a, b with x :: xs, y :: ys => (x + y) :: zipadd xs ys | _, _ => [] end.
Definition c13_additive_case (whole part1 part2 : list Q) : nat :=
  code [ qlist_eqb whole (zipadd part1 part2); (length whole =? length part1)%nat && (length whole =? length part2)%nat ].

(* ---------- amplitudes that are not numbers ---------- *)
(* an amplitude can be nan (0/0: nothing counted in a bin) or +-inf (x/0).  The twin run must give the same
   non-number in the same place: pattern lists (0 finite, 1 nan, 2 +inf, 3 -inf) ride along, the value lists
   carry 0 in those places.  flag2 = "same places hold the same non-numbers". *)
Definition c13_case_np (exact : bool) (pb pt : list nat) (base transformed : list Q) : nat :=
  code [ if exact then qlist_eqb base transformed else list_eqb (fun a b => Qclose tol48 a b || Qeqb a b) base transformed;
         (length base =? length transformed)%nat;
         nlist_eqb pb pt && (length pb =? length base)%nat ].
Definition c13_case_scaled_np (pb pt : list nat) (base transformed : list Q) : nat :=
  let m := qabsmax base in
  code [ list_eqb (fun a b => Qleb (Qabs (a - b)) ((1 # 1099511627776) * m)) base transformed;
         (length base =? length transformed)%nat;
         nlist_eqb pb pt && (length pb =? length base)%nat ].

(* After a factor that is not a power of two the sums of the twin run carry rounding errors.  A leave-one-out sum is
   formed as total - row - column + diagonal, so one that is exactly 0 in the base run (dyadic weights: exact) can
   come out as a residual in the twin: where the base run holds 0/0 or x/0 the twin may hold any value, and "up to
   floating-point rounding" says nothing there.  Where the base run holds a number, the twin must hold a number
   close to it.  flag0 = close where both are numbers, flag2 = a number wherever the base has one. *)
Fixpoint close_where_numbers (tol : Q) (pb pt : list nat) (b t : list Q) : bool :=
  match pb, pt, b, t with
  | p :: pb', q :: pt', x :: b', y :: t' =>
      (if (p =? 0)%nat && (q =? 0)%nat then Qleb (Qabs (x - y)) tol else true) && close_where_numbers tol pb' pt' b' t'
  | _, _, _, _ => true
  end.
Fixpoint numbers_kept (pb pt : list nat) : bool :=
  match pb, pt with
  | p :: pb', q :: pt' => (if (p =? 0)%nat then (q =? 0)%nat else true) && numbers_kept pb' pt'
  | _, _ => true
  end.
Definition c13_case_rounded_np (pb pt : list nat) (base transformed : list Q) : nat :=
  let m := qabsmax base in
  code [ close_where_numbers ((1 # 1099511627776) * m) pb pt base transformed;
         (length base =? length transformed)%nat && (length pb =? length base)%nat && (length pt =? length base)%nat;
         numbers_kept pb pt ].

(* ---------- the stored form of a pair-count table (PatchedCounts.to_hdf / from_hdf) ---------- *)
(* One row per patch pair: the counts in every redshift bin.  The file keeps the rows selected by [keep]; reading
   starts from zeros and puts the kept rows back.  The selection of the code is "some bin is not zero"
   ([any_nonzero], whatever the magnitude); [any_above eps] is a selection with an absolute threshold. *)
Definition any_nonzero (row : list Q) : bool := existsb (fun x => negb (Qeqb x 0)) row.
Definition any_above (eps : Q) (row : list Q) : bool := existsb (fun x => Qltb eps (Qabs x)) row.
Definition store_row (keep : list Q -> bool) (row : list Q) : option (list Q) := if keep row then Some row else None.
Definition restore_row (nb : nat) (o : option (list Q)) : list Q := match o with Some r => r | None => repeat 0 nb end.
Definition roundtrip_row (keep : list Q -> bool) (row : list Q) : list Q := restore_row (length row) (store_row keep row).
Definition roundtrip (keep : list Q -> bool) (T : list (list Q)) : list (list Q) := map (roundtrip_row keep) T.
Definition scale_row (k : Q) (row : list Q) : list Q := map (Qmult k) row.
(* what was read back from the file against the model of the stored form applied to what was in memory *)
Definition c13_store_case (mem restored : list (list Q)) : nat :=
  code [ qmat_eqb restored (roundtrip any_nonzero mem); (length mem =? length restored)%nat ].

(* ---------- the coordinate convention of the input ---------- *)
(* A catalog is given as coordinates, not positions: right ascension and declination in some unit, the right ascension
   in some range.  Reading (DataChunk.create, then every use through AngularCoordinates.to_3d): the coordinates are
   multiplied by the unit factor c (deg2rad for degrees=True, 1 for radian input) and turned into a position by [pos]
   (cos / sin of the angles), which has a period T in the right ascension.  The code applies no range check and no
   canonicalisation to the right ascension: [read].  [read_wrapped W] is a reading that first wraps the right ascension
   as given into [0, W) - before the unit factor, whatever the unit. *)
From Coq Require Import Qround.
Record cobj := { cra : Q; cdec : Q; cw : Q; cpatch : nat }.
Definition wrap (W x : Q) : Q := x - inject_Z (Qfloor (x / W)) * W.
Section Conv.
  Context {P : Type} (pos : Q -> Q -> P).
  Definition read (c : Q) (o : cobj) : lobj P :=
    {| lp := pos (c * cra o) (c * cdec o); lw := cw o; lpatch := cpatch o |}.
  Definition read_wrapped (W c : Q) (o : cobj) : lobj P :=
    {| lp := pos (c * wrap W (cra o)) (c * cdec o); lw := cw o; lpatch := cpatch o |}.
End Conv.
(* the same positions in another unit: every coordinate multiplied by u (to be read with c / u) *)
Definition in_unit (u : Q) (o : cobj) : cobj :=
  {| cra := u * cra o; cdec := u * cdec o; cw := cw o; cpatch := cpatch o |}.
(* the right ascension moved by whole periods, an own number of them per object: [0, T'), (-T'/2, T'/2], +-T', mixtures *)
Definition shift_ra (T' : Q) (k : cobj -> Z) (o : cobj) : cobj :=
  {| cra := cra o + inject_Z (k o) * T'; cdec := cdec o; cw := cw o; cpatch := cpatch o |}.

(* a concrete periodic reading for the examples: positions on a circle of circumference T (and a height), the
   distance along the shorter arc plus the difference in height *)
Definition circle_pos (T a d : Q) : Q * Q := (Qred (wrap T a), Qred d).
Definition circle_ang (T : Q) (p q : Q * Q) : Q :=
  let s := wrap T (fst p - fst q) in (if Qleb s (T - s) then s else T - s) + Qabs (snd p - snd q).

(* ---------- counting over linked patch pairs; catalogs with extents of their own ---------- *)
(* count_pairs visits the linked patch pairs only.  The link test is made from ONE centre and ONE radius per patch for
   the whole measurement, although the catalogs of a measurement share the centres only: the data may reach beyond the
   randoms in one patch and stay inside them in the next, and the centres / radii are taken from whichever catalog holds
   the most rows - so another measurement of the same objects (patches relabelled, a catalog split into two) comes with
   another geometry.  [covers]: every object lies within the radius of its patch around the centre of its patch.
   [link_sym]: the test of the code, both radii enlarged over all catalogs ([reach]).  [link_own]: a one-sided test, the own
   radius r of the largest catalog for the patch being linked and the enlarged radius R for the other one.  [auto_link]: an
   autocorrelation visits a patch pair once, from the lower id, if the lower id lists the higher one. *)
Section Linked.
  Context {P : Type} (ang : P -> P -> Q).
  Definition lpairs_linked (link : nat -> nat -> bool) (A B : list (lobj P)) : pairs :=
    flat_map (fun a => map (fun b => (ang (lp a) (lp b), lw a * lw b))
                           (filter (fun b => link (lpatch a) (lpatch b)) B)) A.
  Definition linked_count (link : nat -> nat -> bool) (lo hi : Q) (A B : list (lobj P)) : Q :=
    w_in lo hi (lpairs_linked link A B).
  Definition covers (c : nat -> P) (R : nat -> Q) (A : list (lobj P)) : bool :=
    forallb (fun o => Qleb (ang (lp o) (c (lpatch o))) (R (lpatch o))) A.
  Definition link_sym (c : nat -> P) (R : nat -> Q) (M : Q) (i j : nat) : bool :=
    Qleb (ang (c i) (c j)) (R i + R j + M).
  Definition link_own (c : nat -> P) (r R : nat -> Q) (M : Q) (i j : nat) : bool :=
    Qleb (ang (c i) (c j)) (r i + R j + M).
  Definition reach (c : nat -> P) (cats : list (list (lobj P))) (i : nat) : Q :=
    qmax_list (map (fun o => ang (lp o) (c i)) (filter (fun o => (lpatch o =? i)%nat) (concat cats))).
  Definition auto_link (link : nat -> nat -> bool) (i j : nat) : bool := (i <? j)%nat && link i j.
End Linked.
(* the line as a metric space, and the swap of the labels 0 and 1, for the examples *)
Definition line_ang (x y : Q) : Q := Qabs (x - y).
Definition swap01 (i : nat) : nat := match i with O => 1%nat | S O => O | _ => i end.
