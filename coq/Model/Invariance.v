(* C13: the specification of the measurement (Model/PairCount.v) as a function of labelled,
   weighted points, and the transformations under which it must not change. *)
From Verif Require Import Prelude PairCount.
Open Scope Q_scope.

Section Inv.
  Context {P : Type} (ang : P -> P -> Q).

  (* a labelled object: position, weight, patch *)
  Record lobj := { lp : P; lw : Q; lpatch : nat }.
  Definition lpairs (A B : list lobj) : pairs :=
    flat_map (fun a => map (fun b => (ang (lp a) (lp b), lw a * lw b)) B) A.
  Definition count (lo hi : Q) (A B : list lobj) : Q := w_in lo hi (lpairs A B).
  Definition totw (A : list lobj) : Q := qsum (map lw A).
  (* cross-correlation term: pair weight over the product of total weights *)
  Definition norm_count (lo hi : Q) (A B : list lobj) : Q := count lo hi A B / (totw A * totw B).
  (* jackknife sample k of the specification: everything in patch k removed *)
  Definition without (k : nat) (A : list lobj) : list lobj := filter (fun o => negb (lpatch o =? k)%nat) A.
  Definition loo_count (lo hi : Q) (k : nat) (A B : list lobj) : Q := count lo hi (without k A) (without k B).

  Definition move (phi : P -> P) (o : lobj) : lobj := {| lp := phi (lp o); lw := lw o; lpatch := lpatch o |}.
  Definition relabel (pi : nat -> nat) (o : lobj) : lobj := {| lp := lp o; lw := lw o; lpatch := pi (lpatch o) |}.
  Definition scale (k : Q) (o : lobj) : lobj := {| lp := lp o; lw := k * lw o; lpatch := lpatch o |}.
End Inv.
Arguments lobj : clear implicits.

(* ---------- correspondence checker: two runs of the pipeline must agree ---------- *)
(* exact: counts (and anything computed from identical counts); close: after a division *)
Definition c13_case (exact : bool) (base transformed : list Q) : nat :=
  code [ if exact then qlist_eqb base transformed else list_eqb (fun a b => Qclose tol48 a b || Qeqb a b) base transformed;
         (length base =? length transformed)%nat ].
(* after divisions / differences (amplitudes DD/DR - 1, covariances) values may nearly cancel, so the
   comparison is absolute on the scale of the largest entry: |b_i - t_i| <= 2^-40 * max(1, max_j |b_j|) *)
Definition qabsmax (l : list Q) : Q := fold_right (fun x m => if Qleb m (Qabs x) then Qabs x else m) 1 l.
Definition c13_case_scaled (base transformed : list Q) : nat :=
  let m := qabsmax base in
  code [ list_eqb (fun a b => Qleb (Qabs (a - b)) ((1 # 1099511627776) * m)) base transformed;
         (length base =? length transformed)%nat ].
(* additivity: whole = part1 + part2, entry-wise *)
Fixpoint zipadd (a b : list Q) : list Q :=
  match a, b with x :: xs, y :: ys => (x + y) :: zipadd xs ys | _, _ => [] end.
Definition c13_additive_case (whole part1 part2 : list Q) : nat :=
  code [ qlist_eqb whole (zipadd part1 part2); (length whole =? length part1)%nat && (length whole =? length part2)%nat ].
