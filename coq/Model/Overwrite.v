(* C11 — writing a product over what the path held before.  CorrFunc.to_file opens the HDF5 file with mode "w": whatever
   groups an older file held are gone, the file holds the groups of the object written now.  A writer that opens the file
   for update instead replaces the groups it writes and keeps the others. *)
From Verif Require Import Prelude Codec.

Section Overwrite.
  Context {A : Type}.
  Definition file := list (kind * A).

  (* mode "w": truncate, then write *)
  Definition write_trunc (old : file) (m : members A) : file := members_enc m.

  (* mode "a": the groups written now replace those of the same name, the others stay *)
  Definition write_update (old : file) (m : members A) : file :=
    members_enc m ++ filter (fun e => negb (existsb (fun e' => kind_eqb (fst e) (fst e')) (members_enc m))) old.
End Overwrite.
