(* Model of the MPI branch of catalog/catalog.py: write_patches / chunk_processing_task /
   scatter_data_chunk / writer_task.

   Ranks: the reader (world rank 0; also processes its own split), k further processing ranks
   ("workers", world ranks 2..), the writer (world rank 1).  Per chunk the reader scatters one
   split to every worker (tag 2 on the worker communicator: specific-source receive, FIFO) and
   keeps one; every processing rank sends the dictionary made from its split to the writer
   (tag 1 on COMM_WORLD).  After the last chunk all processing ranks meet in a barrier on the
   worker communicator, THEN the reader sends the end-of-queue sentinel [Stop] to the writer,
   then everybody meets in the world barrier.  The writer receives with source=ANY_SOURCE:
   it takes the head of ANY non-empty per-sender FIFO channel, and stops at [Stop].

   A record is an abstract [A]; a dictionary is the list of its records.
   [Eager]: a send appends to the sender's channel.  [Sync]: a send and its receive are one
   joint step (the writer must still be receiving and, per-sender FIFO, nothing older of the
   same sender may be queued).
   Two send modes are parameters: [dm] for the patch dictionaries, [sm] for the sentinel.
     pinned code   : dictionaries and sentinel are plain `send`s       (dm, sm arbitrary)
     repaired code : dictionaries are `ssend`s (commit aeec5f0): dm = Sync, sm arbitrary.
   The scatter is an enqueue in both modes (more interleavings than rendezvous would allow,
   which only strengthens the no-loss theorems).
   At the end: error paths under MPI (alignment of collective calls).  No proofs in this file. *)
From Verif Require Import Prelude Dispatch.
From Coq Require Import Permutation.
Open Scope nat_scope.
Set Implicit Arguments.

Inductive wpc (A : Type) := WChunk | WSend (own : list A) | WBarW | WStop | WBarrier | WDone.
Arguments WChunk {A}. Arguments WBarW {A}. Arguments WStop {A}. Arguments WBarrier {A}. Arguments WDone {A}.

Inductive wchoice :=
| XScatter | XRSend | XProc (j : nat) | XEnter (j : nat) | XREnter | XBarrier | XRStop
| XTakeR | XTakeW (j : nat) | XFinal.

Section MpiWrite.
  Context {A : Type}.

  Inductive payload := Dict (recs : list A) | Stop.
  Record wk := mkWk { winb : list (list A); wbar : bool }.
  (* a chunk = (the reader's split, the splits of the k workers) *)
  Definition chunk := (list A * list (list A))%type.
  Record wst := mkWS { rp : wpc A; chunks : list chunk; wks : list wk;
                       rch : list payload; wch : list (list payload);
                       stopped : bool; stored : list A }.

  Fixpoint deliver (ds : list (list A)) (l : list wk) : list wk :=
    match ds, l with
    | d :: ds', w :: l' => mkWk (winb w ++ [d]) (wbar w) :: deliver ds' l'
    | _, _ => l
    end.

  Inductive wstep (dm sm : mode) : wst -> wst -> Prop :=
  (* reader: scatter_data_chunk *)
  | w_scatter own splits rest l rc wc st sd :
      length splits = length l ->
      wstep dm sm (mkWS WChunk ((own, splits) :: rest) l rc wc st sd)
              (mkWS (WSend own) rest (deliver splits l) rc wc st sd)
  (* reader: COMM.send(patches, dest=writer) *)
  | w_rsend_eager own cs l rc wc st sd :
      dm = Eager ->
      wstep dm sm (mkWS (WSend own) cs l rc wc st sd) (mkWS WChunk cs l (rc ++ [Dict own]) wc st sd)
  | w_rsend_sync own cs l rc wc sd :
      dm = Sync ->
      wstep dm sm (mkWS (WSend own) cs l rc wc false sd) (mkWS WChunk cs l rc wc false (sd ++ own))
  (* worker j: receive its split, send its dictionary *)
  | w_proc_eager j p cs l rc wc st sd d ds q :
      dm = Eager -> nth_error l j = Some (mkWk (d :: ds) false) -> nth_error wc j = Some q ->
      wstep dm sm (mkWS p cs l rc wc st sd)
              (mkWS p cs (upd j (mkWk ds false) l) rc (upd j (q ++ [Dict d]) wc) st sd)
  | w_proc_sync j p cs l rc wc sd d ds :
      dm = Sync -> nth_error l j = Some (mkWk (d :: ds) false) ->
      wstep dm sm (mkWS p cs l rc wc false sd) (mkWS p cs (upd j (mkWk ds false) l) rc wc false (sd ++ d))
  (* worker j has processed all chunks: enters the barrier of the worker communicator *)
  | w_enter j p l rc wc st sd :
      nth_error l j = Some (mkWk [] false) ->
      wstep dm sm (mkWS p [] l rc wc st sd) (mkWS p [] (upd j (mkWk [] true) l) rc wc st sd)
  | w_renter l rc wc st sd :
      wstep dm sm (mkWS WChunk [] l rc wc st sd) (mkWS WBarW [] l rc wc st sd)
  | w_barrier cs l rc wc st sd :
      forallb wbar l = true ->
      wstep dm sm (mkWS WBarW cs l rc wc st sd) (mkWS WStop cs l rc wc st sd)
  (* reader: the sentinel, after the worker barrier *)
  | w_rstop_eager cs l rc wc st sd :
      sm = Eager ->
      wstep dm sm (mkWS WStop cs l rc wc st sd) (mkWS WBarrier cs l (rc ++ [Stop]) wc st sd)
  | w_rstop_sync cs l wc sd :
      sm = Sync ->
      wstep dm sm (mkWS WStop cs l [] wc false sd) (mkWS WBarrier cs l [] wc true sd)
  (* writer: recv(source=ANY_SOURCE, tag=1) *)
  | w_take_r p cs l d rc wc sd :
      wstep dm sm (mkWS p cs l (Dict d :: rc) wc false sd) (mkWS p cs l rc wc false (sd ++ d))
  | w_take_stop p cs l rc wc sd :
      wstep dm sm (mkWS p cs l (Stop :: rc) wc false sd) (mkWS p cs l rc wc true sd)
  | w_take_w j p cs l rc wc sd d q :
      nth_error wc j = Some (Dict d :: q) ->
      wstep dm sm (mkWS p cs l rc wc false sd) (mkWS p cs l rc (upd j q wc) false (sd ++ d))
  (* COMM.Barrier() at the end of write_patches *)
  | w_final cs l rc wc sd :
      wstep dm sm (mkWS WBarrier cs l rc wc true sd) (mkWS WDone cs l rc wc true sd).

  Definition winit (cs : list chunk) (k : nat) : wst :=
    mkWS WChunk cs (repeat (mkWk [] false) k) [] (repeat [] k) false [].

  Inductive wreach (dm sm : mode) (s0 : wst) : wst -> Prop :=
  | wreach_refl : wreach dm sm s0 s0
  | wreach_step s s' : wreach dm sm s0 s -> wstep dm sm s s' -> wreach dm sm s0 s'.

  (* the input: all records of all chunks *)
  Definition chunk_recs (c : chunk) : list A := fst c ++ concat (snd c).
  Definition all_recs (cs : list chunk) : list A := flat_map chunk_recs cs.
  Definition dicts (q : list payload) : list A :=
    flat_map (fun p => match p with Dict d => d | Stop => [] end) q.
  (* dictionaries sent to the writer and never received *)
  Definition unreceived (s : wst) : list A := dicts (rch s) ++ flat_map dicts (wch s).

  (* ---- executable step (dm = sm = Eager: the pinned code under buffered sends; used for the
        refutation witness) ---- *)
  Definition wstep_with (c : wchoice) (s : wst) : option wst :=
    match c with
    | XScatter =>
        match rp s, chunks s with
        | WChunk, (own, splits) :: rest =>
            if length splits =? length (wks s)
            then Some (mkWS (WSend own) rest (deliver splits (wks s)) (rch s) (wch s) (stopped s) (stored s))
            else None
        | _, _ => None
        end
    | XRSend =>
        match rp s with
        | WSend own => Some (mkWS WChunk (chunks s) (wks s) (rch s ++ [Dict own]) (wch s) (stopped s) (stored s))
        | _ => None
        end
    | XProc j =>
        match nth_error (wks s) j, nth_error (wch s) j with
        | Some (mkWk (d :: ds) false), Some q =>
            Some (mkWS (rp s) (chunks s) (upd j (mkWk ds false) (wks s)) (rch s) (upd j (q ++ [Dict d]) (wch s))
                       (stopped s) (stored s))
        | _, _ => None
        end
    | XEnter j =>
        match chunks s, nth_error (wks s) j with
        | [], Some (mkWk [] false) =>
            Some (mkWS (rp s) [] (upd j (mkWk [] true) (wks s)) (rch s) (wch s) (stopped s) (stored s))
        | _, _ => None
        end
    | XREnter =>
        match rp s, chunks s with
        | WChunk, [] => Some (mkWS WBarW [] (wks s) (rch s) (wch s) (stopped s) (stored s))
        | _, _ => None
        end
    | XBarrier =>
        match rp s with
        | WBarW => if forallb wbar (wks s)
                   then Some (mkWS WStop (chunks s) (wks s) (rch s) (wch s) (stopped s) (stored s)) else None
        | _ => None
        end
    | XRStop =>
        match rp s with
        | WStop => Some (mkWS WBarrier (chunks s) (wks s) (rch s ++ [Stop]) (wch s) (stopped s) (stored s))
        | _ => None
        end
    | XTakeR =>
        match stopped s, rch s with
        | false, Dict d :: rc => Some (mkWS (rp s) (chunks s) (wks s) rc (wch s) false (stored s ++ d))
        | false, Stop :: rc => Some (mkWS (rp s) (chunks s) (wks s) rc (wch s) true (stored s))
        | _, _ => None
        end
    | XTakeW j =>
        match stopped s, nth_error (wch s) j with
        | false, Some (Dict d :: q) =>
            Some (mkWS (rp s) (chunks s) (wks s) (rch s) (upd j q (wch s)) false (stored s ++ d))
        | _, _ => None
        end
    | XFinal =>
        match rp s, stopped s with
        | WBarrier, true => Some (mkWS WDone (chunks s) (wks s) (rch s) (wch s) true (stored s))
        | _, _ => None
        end
    end.

  Fixpoint wrun (cs : list wchoice) (s : wst) : option wst :=
    match cs with
    | [] => Some s
    | c :: cs' => match wstep_with c s with Some s' => wrun cs' s' | None => None end
    end.
End MpiWrite.

Arguments payload : clear implicits.
Arguments wk : clear implicits.
Arguments wst : clear implicits.
Arguments chunk : clear implicits.
Arguments Stop {A}.

(* F13b witness: 3 sending... 2 sending ranks (reader + one worker), one chunk: the reader keeps
   record 1, the worker gets record 2.  Both send eagerly, meet in the worker barrier, the reader
   sends the sentinel; the writer's wildcard receive takes the reader's channel first. *)
Definition f13b_chunks : list (chunk nat) := [([1], [[2]])].
Definition f13b_choices : list wchoice :=
  [XScatter; XRSend; XProc 0; XREnter; XEnter 0; XBarrier; XRStop; XTakeR; XTakeR; XFinal].

(* ---- error paths (documented refusals) under MPI: alignment of collective calls ----
   A refused request (probe larger than the random sample, cache exists, non-finite value, ...)
   must end on EVERY rank.  A rank's run is abstracted to the list of collective calls it enters
   on one communicator until it returns or raises; a call is a number (8 * kind + root + 1, root
   part 0 when the call has none; kinds Barrier 1, bcast 2, Bcast 3, gather 4, Split 5).
   Collectives synchronise: a call completes when every member has entered the SAME call
   (harness/sim/mpi4py: the most blocking behaviour MPI allows; a member that has already left,
   or one that entered a different call, blocks the others for good).  A world is the list of
   the members' remaining traces.  Point-to-point traffic is abstracted away, so the model gives
   a NECESSARY condition for termination of a real run (all ranks returned -> aligned). *)
Notation ctrace := (list nat) (only parsing).
Notation cworld := (list (list nat)) (only parsing).

Inductive cstep : cworld -> cworld -> Prop :=
| cstep_all k (w : cworld) :
    w <> [] -> (forall t, In t w -> exists t', t = k :: t') -> cstep w (map (@tl nat) w).
Definition cdone (w : cworld) : Prop := forall t, In t w -> t = [].
Inductive creach : cworld -> cworld -> Prop :=
| creach_refl w : creach w w
| creach_step w w1 w2 : cstep w w1 -> creach w1 w2 -> creach w w2.
(* every rank returns (normally or by raising) *)
Definition cterminates (w : cworld) : Prop := exists w', creach w w' /\ cdone w'.
(* some rank has not returned and no collective can complete, now or ever *)
Definition cstuck (w : cworld) : Prop := ~ cdone w /\ forall w', ~ cstep w w'.

(* executable step and the executable criterion *)
Definition head_is (k : nat) (t : ctrace) : bool := match t with k' :: _ => k' =? k | [] => false end.
Definition cstep_fun (w : cworld) : option cworld :=
  match w with
  | (k :: _) :: _ => if forallb (head_is k) w then Some (map (@tl nat) w) else None
  | _ => None
  end.
Definition aligned (w : cworld) : bool :=
  match w with [] => true | t0 :: r => forallb (nlist_eqb t0) r end.

(* refusal disciplines.  [pre]: the collectives before the point of refusal, [body]: the rest of
   the refused operation, [next]: whatever the caller does after it has handled the error (a
   retry, the next operation, MPI_Finalize ...).
   [refuse_all]: the refusal is decided by every rank (on replicated arguments, or agreed on by a
   collective that is part of [pre]) - every rank leaves the operation at the same point.
   [refuse_some who]: only the ranks in [who] detect it (the root that reads the data, the writer
   rank that opens the cache, a worker that runs the job); the others go on with [body]. *)
Definition world_of (n : nat) (prog : nat -> ctrace) : cworld := map prog (seq 0 n).
Definition refuse_all (pre next : ctrace) : nat -> ctrace := fun _ => pre ++ next.
Definition refuse_some (who : nat -> bool) (pre body next : ctrace) : nat -> ctrace :=
  fun r => pre ++ (if who r then [] else body) ++ next.

(* one refusal run of the implementation under the simulated world: [worlds] = per communicator
   the collective traces of its members as logged (refused call, harness barrier, a valid
   follow-up operation).
   flag0: the log agrees with the model (all ranks returned -> every communicator aligned);
   flag1: every rank returned; flag2: the root's outcome of the refused call is the
   single-process one; flag3: the root's result of the follow-up operation is the single-process one *)
Definition c06_refusal_case (worlds : list cworld) (all_returned root_same follow_same : bool) : nat :=
  code [ implb all_returned (forallb aligned worlds); all_returned; root_same; follow_same ].

(* ---- node layouts (several hosts) ----
   WorkerManager (catalog/catalog.py) builds the write pipeline from the ranks that report the
   processor name of the reader (world rank 0): `ranks_on_same_node(0, get_size(max_workers))` =
   the first min(max_workers or size, size) of them in rank order; one of them other than the
   reader becomes the writer, the others (reader included) are the processing ranks = the members
   of the worker communicator.  A processor name is a number, [hosts] lists the name of every
   world rank.  [nproc] = number of processing ranks; None = the request is refused (fewer than
   two allowed workers: ValueError; no second rank on the reader's node: KeyError of set.pop).
   On ONE node nproc = min(max_workers, size) - 1; on several nodes it can be anything from 1 up
   to that number - the two quantities are independent inputs of the scatter. *)
Fixpoint idx_where (p : nat -> bool) (l : list nat) (i : nat) : list nat :=
  match l with
  | [] => []
  | h :: t => if p h then i :: idx_where p t (S i) else idx_where p t (S i)
  end.
Definition same_node (hosts : list nat) : list nat :=
  match hosts with [] => [] | h0 :: _ => idx_where (Nat.eqb h0) hosts 0 end.
Definition eff_workers (size : nat) (mw : option nat) : nat :=
  match mw with None => size | Some 0 => size | Some m => Nat.min m size end.
Definition active_ranks (hosts : list nat) (mw : option nat) : list nat :=
  firstn (eff_workers (length hosts) mw) (same_node hosts).
Definition nproc (hosts : list nat) (mw : option nat) : option nat :=
  if eff_workers (length hosts) mw <? 2 then None
  else match active_ranks hosts mw with _ :: _ :: rest => Some (S (length rest)) | _ => None end.

(* numpy.array_split: k pieces, the first (n mod k) of them one record longer *)
Definition split_sizes (n k : nat) : list nat := repeat (S (n / k)) (n mod k) ++ repeat (n / k) (k - n mod k).

Section Scatter.
  Context {A : Type}.
  Fixpoint take_pieces (sizes : list nat) (l : list A) : list (list A) :=
    match sizes with
    | [] => []
    | n :: ns => firstn n l :: take_pieces ns (skipn n l)
    end.
  Definition array_split (l : list A) (k : nat) : list (list A) := take_pieces (split_sizes (length l) k) l.
  (* scatter_data_chunk: one piece per processing rank, the reader keeps the first *)
  Definition scatter (np : nat) (l : list A) : chunk A :=
    match array_split l np with own :: rest => (own, rest) | [] => ([], []) end.
  (* the class of defects this section is about: the chunk is cut into [nsplit] pieces (a number
     derived from the worker limit) while one piece is handed to each of the [np] processing ranks *)
  Definition scatter_var (nsplit np : nat) (l : list A) : chunk A :=
    match array_split l nsplit with own :: rest => (own, firstn (np - 1) rest) | [] => ([], []) end.
End Scatter.

(* one creation run of the implementation on a world with processor names [hosts] and worker
   limit [mw].  refused: every rank raised; writer: the rank the dictionaries were sent to;
   members: writer and processing ranks, ascending; procs: the processing ranks, ascending;
   pieces: per chunk the number of records each processing rank turned into a dictionary;
   input / stored: records of the single-process catalog / of the root's catalog.
   flag0: the model agrees (who takes part, how a chunk is cut); flag1: the pieces of all chunks
   add up to the input (nothing lost between reader and workers); flag2: stored = input *)
Definition c06_layout_case (hosts : list nat) (mw : option nat) (refused : bool) (writer : nat)
    (members procs : list nat) (pieces : list (list nat)) (input stored : nat) : nat :=
  code [ if refused then match nproc hosts mw with None => true | Some _ => false end
         else match nproc hosts mw with Some np => np =? length procs | None => false end
              && nlist_eqb members (active_ranks hosts mw)
              && negb (writer =? 0) && existsb (Nat.eqb writer) members
              && nlist_eqb procs (filter (fun r => negb (r =? writer)) members)
              && forallb (fun pcs => nlist_eqb pcs (split_sizes (list_sum pcs) (length procs))) pieces;
         refused || (list_sum (map (@list_sum) pieces) =? input);
         refused || (stored =? input) ].
