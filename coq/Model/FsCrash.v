(* C08 — files and crashes.
   The file system is a map path -> option content with ABSTRACT contents; a workload is the
   LIST of operations the code issues, in order; the state a crash leaves after the k-th system
   call is  apply (firstn k ops) s0.  `recover` mirrors what the next user of the directory does
   (catalog/catalog.py:read_patch_ids + load_patches, catalog/patch.py:Patch.__init__,
   catalog/trees.py:BinnedTrees.__init__/build + the tree loading in process_patch_pair,
   utils/abc.py:from_file, correlation/corrdata.py:from_files).
   Every workload/recovery exists in the form of the pinned commit (fixed = false) and in a
   repaired form (fixed = true; catalog creation: the id list is written aside and renamed into
   place, an empty id list is refused).  No proofs in this file. *)
From Verif Require Import Prelude.
Open Scope nat_scope.

(* ------------------------------------------------------------------ paths and contents *)
Inductive path :=
| PRoot                 (* the cache directory *)
| PIds                  (* patch_ids.bin *)
| PDir (i : nat)        (* patch_i/ *)
| PData (i : nat)       (* patch_i/data.bin *)
| PMeta (i : nat)       (* patch_i/meta.yml *)
| PBin (i : nat)        (* patch_i/binning *)
| PTrees (i : nat)      (* patch_i/trees.pkl *)
| PRes                  (* <result>.hdf5 *)
| PDat | PSmp | PCov    (* <result>.dat / .smp / .cov *)
| POther (n : nat)      (* anything else (never produced by the models) *)
| PTmp.                 (* patch_ids.tmp: the id list written aside, before it is moved into place *)

Definition path_beq (a b : path) : bool :=
  match a, b with
  | PRoot, PRoot | PIds, PIds | PRes, PRes | PDat, PDat | PSmp, PSmp | PCov, PCov | PTmp, PTmp => true
  | PDir i, PDir j | PData i, PData j | PMeta i, PMeta j | PBin i, PBin j
  | PTrees i, PTrees j | POther i, POther j => i =? j
  | _, _ => false
  end.

(* binning ids: 0 = unbinned, b > 0 = one (edges, closed side) *)
Inductive binfile :=
| BWhole (b : nat)      (* closed-side byte + edges of binning b (b > 0) *)
| BByte                 (* only the closed-side byte (this IS the complete file of "unbinned") *)
| BEmpty.               (* created / truncated, nothing written *)

Inductive content :=
| Dir
| DataF (hdr : bool) (recs : list nat)   (* data.bin: header byte written?, records (sorted ids) *)
| MetaF (ok : bool)                      (* meta.yml: complete YAML | empty *)
| BinF (b : binfile)
| TreesF (t : option nat)                (* complete pickle of the trees for binning t | truncated *)
| IdsF (ids : list nat)                  (* patch_ids.bin; [] is the 0-byte file *)
| ResF (v : option nat)                  (* a result file holding value v | truncated / partial *)
| Junk                                   (* bytes the abstraction could not classify *)
| DataT (recs : list nat).               (* data.bin: header, the complete records recs and a part of one more record
                                            (a write system call that ended inside a record) *)

Definition binfile_beq (a b : binfile) : bool :=
  match a, b with
  | BWhole x, BWhole y => x =? y | BByte, BByte | BEmpty, BEmpty => true | _, _ => false
  end.
Definition onat_beq (a b : option nat) : bool :=
  match a, b with Some x, Some y => x =? y | None, None => true | _, _ => false end.
Definition content_beq (a b : content) : bool :=
  match a, b with
  | Dir, Dir | Junk, Junk => true
  | DataF h r, DataF h' r' => Bool.eqb h h' && nlist_eqb r r'
  | MetaF x, MetaF y => Bool.eqb x y
  | BinF x, BinF y => binfile_beq x y
  | TreesF x, TreesF y => onat_beq x y
  | IdsF x, IdsF y => nlist_eqb x y
  | ResF x, ResF y => onat_beq x y
  | DataT r, DataT r' => nlist_eqb r r'
  | _, _ => false
  end.

Definition fs := path -> option content.
Definition empty_fs : fs := fun _ => None.

(* Mv p q = rename(p, q): ONE system call after which q holds what p held and p is gone (atomic: no crash state in
   between) *)
Inductive fop := Put (p : path) (c : content) | Del (p : path) | Mv (p q : path).
Definition op_path (o : fop) : path := match o with Put p _ => p | Del p => p | Mv _ q => q end.
(* every path an operation may change *)
Definition op_paths (o : fop) : list path := match o with Put p _ => [p] | Del p => [p] | Mv p q => [p; q] end.
Definition fop_beq (a b : fop) : bool :=
  match a, b with
  | Put p c, Put q d => path_beq p q && content_beq c d
  | Del p, Del q => path_beq p q
  | Mv p q, Mv p' q' => path_beq p p' && path_beq q q'
  | _, _ => false
  end.

(* create/truncate = Put p <empty content>; append = Put p <new content>; unlink/rmdir = Del p; rename = Mv p q *)
Definition apply1 (s : fs) (o : fop) : fs :=
  match o with
  | Put p c => fun q => if path_beq q p then Some c else s q
  | Del p => fun q => if path_beq q p then None else s q
  | Mv p q => fun r => if path_beq r q then s p else if path_beq r p then None else s r
  end.
Definition apply (ops : list fop) (s : fs) : fs := fold_left apply1 ops s.

(* a state given as an association list (the harness writes prior states like this) *)
Fixpoint fs_of (l : list (path * content)) : fs :=
  match l with
  | [] => empty_fs
  | (p, c) :: r => fun q => if path_beq q p then Some c else fs_of r q
  end.

Definition present (c : option content) : bool := match c with Some _ => true | None => false end.

(* ------------------------------------------------------------------ outcomes *)
Inductive outcome (A : Type) := Err | Ok (a : A).
Arguments Err {A}.
Arguments Ok {A} a.

(* 0 error | 1 something else (the silent wrong answer) | 2 equals old only | 3 equals new only
   | 4 equals both (old = new) *)
Definition classify {A} (eqb : A -> A -> bool) (r old new : outcome A) : nat :=
  match r with
  | Err => 0
  | Ok o =>
      let a := match old with Ok x => eqb o x | Err => false end in
      let b := match new with Ok x => eqb o x | Err => false end in
      if a && b then 4 else if a then 2 else if b then 3 else 1
  end.

(* ------------------------------------------------------------------ catalog creation *)
(* CatalogWriter: one piece = (patch id, records) handed to PatchWriter.process_chunk; with
   buffersize = -1 every piece is flushed at once.  First piece of a patch: mkdir, open(append)
   = create, header byte, records; later pieces: one append each.  finalize(), last: the sorted ids are
   written ASIDE (patch_ids.tmp is created, 0 bytes, and written) and moved into place by one rename, so that
   patch_ids.bin never holds a part of the list (ops_create_ids).  The pinned commit wrote patch_ids.bin in
   place (ops_create_ids_pinned; in several system calls when the list is long: ops_ids_pieces). *)
Definition piece := (nat * list nat)%type.

Fixpoint acc_get (acc : list piece) (p : nat) : option (list nat) :=
  match acc with
  | [] => None
  | (q, r) :: t => if q =? p then Some r else acc_get t p
  end.
Fixpoint acc_set (acc : list piece) (p : nat) (r : list nat) : list piece :=
  match acc with
  | [] => [(p, r)]
  | (q, r0) :: t => if q =? p then (q, r) :: t else (q, r0) :: acc_set t p r
  end.

Fixpoint ops_pieces (acc : list piece) (ps : list piece) : list fop * list piece :=
  match ps with
  | [] => ([], acc)
  | (p, rs) :: t =>
      match acc_get acc p with
      | None =>
          let (o, a) := ops_pieces (acc_set acc p rs) t in
          (Put (PDir p) Dir :: Put (PData p) (DataF false []) :: Put (PData p) (DataF true [])
             :: Put (PData p) (DataF true rs) :: o, a)
      | Some old =>
          let (o, a) := ops_pieces (acc_set acc p (old ++ rs)) t in
          (Put (PData p) (DataF true (old ++ rs)) :: o, a)
      end
  end.

Fixpoint fs_insert (k : nat) (l : list nat) : list nat :=
  match l with [] => [k] | x :: r => if k <=? x then k :: l else x :: fs_insert k r end.
Definition fs_sort (l : list nat) : list nat := fold_right fs_insert [] l.

Definition created_ids (ps : list piece) : list nat := fs_sort (map fst (snd (ops_pieces [] ps))).

(* spec of "the complete new catalog": patch i holds the records of its pieces, in order *)
Definition recs_for (ps : list piece) (i : nat) : list nat :=
  flat_map (fun pc => if fst pc =? i then snd pc else []) ps.
Definition has_piece (ps : list piece) (i : nat) : bool := existsb (fun pc => fst pc =? i) ps.

(* body: everything before patch_ids.bin *)
Definition ops_create_body (ps : list piece) : list fop := Put PRoot Dir :: fst (ops_pieces [] ps).
Definition ops_ids_aside (ids : list nat) : list fop :=
  [Put PTmp (IdsF []); Put PTmp (IdsF ids); Mv PTmp PIds].
Definition ops_create_ids (ps : list piece) : list fop := ops_ids_aside (created_ids ps).
(* PINNED variant (the commit under test before the repair): the marker is created and written in place.
   ndarray.tofile writes through a stdio stream: a list longer than the stream's buffer (2048 ids) reaches the file
   in SEVERAL write system calls; ops_ids_pieces is the case of two (l1 = what the first call delivers) *)
Definition ops_create_ids_pinned (ps : list piece) : list fop :=
  [Put PIds (IdsF []); Put PIds (IdsF (created_ids ps))].
Definition ops_ids_pieces (l1 l2 : list nat) : list fop :=
  [Put PIds (IdsF []); Put PIds (IdsF l1); Put PIds (IdsF (l1 ++ l2))].

(* Patch.__init__ without meta.yml: compute, then open (create) + one write *)
Definition ops_meta_all (ids : list nat) : list fop :=
  flat_map (fun i => [Put (PMeta i) (MetaF false); Put (PMeta i) (MetaF true)]) ids.
Definition ops_metadata (s : fs) (ids : list nat) : list fop :=
  flat_map (fun i => if present (s (PMeta i)) then [] else [Put (PMeta i) (MetaF false); Put (PMeta i) (MetaF true)]) ids.

(* Catalog.from_dataframe / from_file: write_patches, then load_patches computes the metadata *)
Definition ops_create (ps : list piece) : list fop :=
  ops_create_body ps ++ ops_create_ids ps ++ ops_meta_all (created_ids ps).

(* overwrite=True: rmtree first.  The order in which rmtree removes the entries is the order of
   os.scandir and is a PARAMETER here (any order, children before parents) *)
Definition ops_overwrite (order : list path) (ps : list piece) : list fop :=
  map Del order ++ ops_create ps.
Definition ops_create_pinned (ps : list piece) : list fop :=
  ops_create_body ps ++ ops_create_ids_pinned ps ++ ops_meta_all (created_ids ps).
Definition ops_overwrite_pinned (order : list path) (ps : list piece) : list fop :=
  map Del order ++ ops_create_pinned ps.

Definition parent (p : path) : option path :=
  match p with
  | PRoot => None
  | PData i | PMeta i | PBin i | PTrees i => Some (PDir i)
  | _ => Some PRoot
  end.
Fixpoint mem_path (p : path) (l : list path) : bool :=
  match l with [] => false | q :: r => path_beq p q || mem_path p r end.
(* every entry of the given listing is deleted, once, and no directory before its children *)
Fixpoint children_first (order : list path) : bool :=
  match order with
  | [] => true
  | p :: r => negb (mem_path p r)
              && negb (existsb (fun q => match parent q with Some d => path_beq d p | None => false end) r)
              && children_first r
  end.
Definition covers (l : list (path * content)) (order : list path) : bool :=
  forallb (fun pc => mem_path (fst pc) order) l.
Definition valid_order_b (l : list (path * content)) (order : list path) : bool :=
  covers l order && children_first order.

(* ------------------------------------------------------------------ appends above the size of the user-space buffer *)
(* PatchWriter.flush hands a piece to ndarray.tofile, which writes through a stdio stream on a duplicate of the
   descriptor: above the size of the stream's buffer the piece reaches data.bin in SEVERAL write system calls (whole
   blocks first, the rest when the stream is closed).  A cut (c, torn) is the state after one of these calls that is
   not the last: the file holds the first c records of the piece completely and, if torn, a part of the next one
   (block size not a multiple of the record size).  How a piece is cut is a PARAMETER (whatever the trace shows); the
   last system call of a piece completes it.  Without cuts this is ops_pieces. *)
Definition cut := (nat * bool)%type.
Definition bpiece := (piece * list cut)%type.
Definition cut_content (old rs : list nat) (c : cut) : content :=
  if snd c then DataT (old ++ firstn (fst c) rs) else DataF true (old ++ firstn (fst c) rs).
Definition cut_ops (p : nat) (old rs : list nat) (cuts : list cut) : list fop :=
  map (fun c => Put (PData p) (cut_content old rs c)) cuts.

Fixpoint ops_bpieces (acc : list piece) (bps : list bpiece) : list fop * list piece :=
  match bps with
  | [] => ([], acc)
  | ((p, rs), cuts) :: t =>
      match acc_get acc p with
      | None =>
          let (o, a) := ops_bpieces (acc_set acc p rs) t in
          (Put (PDir p) Dir :: Put (PData p) (DataF false []) :: Put (PData p) (DataF true [])
             :: cut_ops p [] rs cuts ++ Put (PData p) (DataF true rs) :: o, a)
      | Some old =>
          let (o, a) := ops_bpieces (acc_set acc p (old ++ rs)) t in
          (cut_ops p old rs cuts ++ Put (PData p) (DataF true (old ++ rs)) :: o, a)
      end
  end.

Definition unbuf (bps : list bpiece) : list piece := map fst bps.
Definition ops_bcreate_body (bps : list bpiece) : list fop := Put PRoot Dir :: fst (ops_bpieces [] bps).
(* the marker and the metadata are those of the unbuffered creation: patch_ids.bin after ALL data *)
Definition ops_bcreate (bps : list bpiece) : list fop :=
  ops_bcreate_body bps ++ ops_create_ids (unbuf bps) ++ ops_meta_all (created_ids (unbuf bps)).
Definition ops_boverwrite (order : list path) (bps : list bpiece) : list fop :=
  map Del order ++ ops_bcreate bps.
Definition ops_bcreate_pinned (bps : list bpiece) : list fop :=
  ops_bcreate_body bps ++ ops_create_ids_pinned (unbuf bps) ++ ops_meta_all (created_ids (unbuf bps)).
Definition ops_boverwrite_pinned (order : list path) (bps : list bpiece) : list fop :=
  map Del order ++ ops_bcreate_pinned bps.

(* the order that is NOT safe: patch_ids.bin written when only the first j system calls of the body have reached
   the file system (the rest is still in user-space buffers and follows when the writers are closed) *)
Definition ops_bcreate_early (j : nat) (bps : list bpiece) : list fop :=
  firstn j (ops_bcreate_body bps) ++ ops_create_ids (unbuf bps) ++ skipn j (ops_bcreate_body bps)
  ++ ops_meta_all (created_ids (unbuf bps)).

(* run-length notation for long record lists: [(v, n); ...] = n times v, ... *)
Definition rl (l : list (nat * nat)) : list nat := flat_map (fun vn => repeat (fst vn) (snd vn)) l.

(* ------------------------------------------------------------------ opening a catalog *)
(* Patch.__init__: meta.yml readable -> header byte of data.bin is read; meta.yml missing
   (FileNotFoundError) -> data.bin is read, metadata computed (fails without records) and
   written; an empty meta.yml makes yaml return None and from_dict raise *)
Definition patch_data (c : option content) : option (list nat) :=
  match c with Some (DataF true (r :: recs)) => Some (r :: recs) | _ => None end.
Definition recover_patch (s : fs) (i : nat) : option (list nat) :=
  match s (PMeta i) with
  | Some (MetaF true) => patch_data (s (PData i))
  | Some _ => None
  | None => patch_data (s (PData i))
  end.
Fixpoint collect (s : fs) (ids : list nat) : option (list (nat * list nat)) :=
  match ids with
  | [] => Some []
  | i :: r =>
      match recover_patch s i, collect s r with
      | Some x, Some y => Some ((i, x) :: y)
      | _, _ => None
      end
  end.
Definition is_nil {A} (l : list A) : bool := match l with [] => true | _ => false end.

(* Catalog(cache): directory must exist, read_patch_ids, load_patches.
   strict = false: the pinned commit (np.fromfile of a 0-byte patch_ids.bin = no patches, no error)
   strict = true : repaired (an empty id list is an error) *)
Definition observable := list (nat * list nat).
Definition recover_cat (strict : bool) (s : fs) : outcome observable :=
  match s PRoot, s PIds with
  | Some _, Some (IdsF ids) =>
      if strict && is_nil ids then Err
      else match collect s ids with Some o => Ok o | None => Err end
  | _, _ => Err
  end.

Definition obs_beq (a b : observable) : bool :=
  list_eqb (fun x y => (fst x =? fst y) && nlist_eqb (snd x) (snd y)) a b.

(* ------------------------------------------------------------------ tree caches *)
(* what BinnedTrees.__init__ decodes from the binning file *)
Definition decode (c : option content) : option nat :=
  match c with
  | None => None                              (* FileNotFoundError -> rebuild *)
  | Some (BinF (BWhole b)) => Some b
  | Some _ => Some 0                          (* read(1) = b"" or one byte, no edges -> unbinned *)
  end.

Inductive used := UErr | Used (b : nat).     (* trees for which binning end up in the measurement *)

(* BinnedTrees.build(patch, b, force=False) followed by loading the trees of that patch *)
Definition use_trees (s : fs) (i b : nat) : used :=
  match decode (s (PBin i)) with
  | None => Used b                                         (* rebuilt *)
  | Some b' =>
      if b' =? b then
        match s (PTrees i) with
        | Some (TreesF (Some bt)) =>
            if bt =? b then Used b
            else if (bt =? 0) || (b =? 0) then UErr       (* tuple where a tree is expected or v.v. *)
            else Used bt                                   (* silently the wrong binning *)
        | _ => UErr                                        (* missing / truncated pickle *)
        end
      else Used b                                          (* marker differs -> rebuilt *)
  end.

(* pinned order: open trees.pkl (truncate), dump (1 + extra writes), THEN rewrite binning *)
Definition marker_ops (i b : nat) : list fop :=
  if b =? 0 then [Put (PBin i) (BinF BEmpty); Put (PBin i) (BinF BByte)]
  else [Put (PBin i) (BinF BEmpty); Put (PBin i) (BinF BByte); Put (PBin i) (BinF (BWhole b))].
Definition trees_ops (i b extra : nat) : list fop :=
  repeat (Put (PTrees i) (TreesF None)) (S extra) ++ [Put (PTrees i) (TreesF (Some b))].
Definition build_cur (i b extra : nat) : list fop := trees_ops i b extra ++ marker_ops i b.
(* repaired order: the marker is removed before the trees are touched *)
Definition build_fix (had_marker : bool) (i b extra : nat) : list fop :=
  (if had_marker then [Del (PBin i)] else []) ++ build_cur i b extra.

Definition needs_build (s : fs) (i b : nat) (force : bool) : bool :=
  force || match decode (s (PBin i)) with Some b' => negb (b' =? b) | None => true end.
Definition ops_build_patch (fixed : bool) (s : fs) (b : nat) (force : bool) (ie : nat * nat) : list fop :=
  if needs_build s (fst ie) b force
  then (if fixed then build_fix (present (s (PBin (fst ie)))) (fst ie) b (snd ie)
        else build_cur (fst ie) b (snd ie))
  else [].
(* Catalog.build_trees: patch after patch (ies = [(patch id, extra write calls of its pickle)]) *)
Definition ops_build (fixed : bool) (s : fs) (ies : list (nat * nat)) (b : nat) (force : bool) : list fop :=
  flat_map (ops_build_patch fixed s b force) ies.

(* the measurement: every patch's trees are (re)built for b and loaded *)
Definition measure (s : fs) (ids : list nat) (b : nat) : outcome (list nat) :=
  let us := map (fun i => use_trees s i b) ids in
  if existsb (fun u => match u with UErr => true | _ => false end) us then Err
  else Ok (map (fun u => match u with Used x => x | UErr => 0 end) us).

Definition consistent_b (s : fs) (i : nat) : bool :=
  match decode (s (PBin i)) with
  | None => true
  | Some b' => match s (PTrees i) with Some (TreesF (Some bt)) => bt =? b' | _ => false end
  end.

(* ------------------------------------------------------------------ result files *)
(* HdfSerializable.to_file: h5py.File(path, "w") truncates, then writes; the file is incomplete
   for the first 1 + extra system calls and complete from then on (HDF5 ends with 1 + tail
   writes that only touch the status flags of the superblock) *)
Definition ops_res_single (extra tail v : nat) : list fop :=
  repeat (Put PRes (ResF None)) (S extra) ++ repeat (Put PRes (ResF (Some v))) (S tail).
Definition recover_single (s : fs) : outcome (nat * nat) :=
  match s PRes with Some (ResF (Some v)) => Ok (v, v) | _ => Err end.

(* CorrData.to_files: .dat, then .smp, then .cov, each opened "w" and written *)
Definition ops_triple_cur (v : nat) : list fop :=
  [Put PDat (ResF None); Put PDat (ResF (Some v)); Put PSmp (ResF None); Put PSmp (ResF (Some v));
   Put PCov (ResF None); Put PCov (ResF (Some v))].
(* repaired: the files from_files does not rewrite first are removed first *)
Definition ops_triple_fix (s : fs) (v : nat) : list fop :=
  (if present (s PSmp) then [Del PSmp] else []) ++ (if present (s PCov) then [Del PCov] else [])
  ++ ops_triple_cur v.
Definition ops_triple (fixed : bool) (s : fs) (v : nat) : list fop :=
  if fixed then ops_triple_fix s v else ops_triple_cur v.
(* from_files reads .dat (edges, data) and .smp (samples); .cov is not read *)
Definition recover_triple (s : fs) : outcome (nat * nat) :=
  match s PDat, s PSmp with
  | Some (ResF (Some a)), Some (ResF (Some b)) => Ok (a, b)
  | _, _ => Err
  end.
Definition pair_beq (a b : nat * nat) : bool := (fst a =? fst b) && (snd a =? snd b).

(* ------------------------------------------------------------------ products under user-given names *)
(* CorrData/RedshiftData/HistData.to_files(prefix), CorrFunc.to_file(path), Configuration.to_file(path):
   the code DERIVES file names from the path the user gives (prefix -> prefix.with_suffix(".dat"), ...),
   and it does so three times: when it removes files of an earlier product (nd), when it writes (ws, in
   order; per file 1 + extra system calls that leave it incomplete and 1 + tail that leave it complete),
   and when it reads the product back (nr).  The NAMES are parameters of the model (whatever the traces
   show: dots in the prefix, suffixes that look like extensions, directories); the theorems say for
   which relations between the three name lists every crash state is an error, the old or the new
   product.  PDat/PSmp/PCov above are the instance nd = [PSmp; PCov], ws = PDat, PSmp, PCov, nr = [PDat; PSmp]. *)
Definition wfile := (path * (nat * nat))%type.       (* name, (extra, tail) *)
Definition ops_wfile (v : nat) (w : wfile) : list fop :=
  repeat (Put (fst w) (ResF None)) (S (fst (snd w))) ++ repeat (Put (fst w) (ResF (Some v))) (S (snd (snd w))).
Definition ops_wfiles (ws : list wfile) (v : nat) : list fop := flat_map (ops_wfile v) ws.
(* unlink(missing_ok=True): only names that exist give an operation *)
Definition ops_dels (s : fs) (nd : list path) : list fop := map Del (filter (fun p => present (s p)) nd).
Definition ops_product (fixed : bool) (s : fs) (nd : list path) (ws : list wfile) (v : nat) : list fop :=
  (if fixed then ops_dels s nd else []) ++ ops_wfiles ws v.
(* reading: every name of nr must hold a complete file; the observable is the list of values read *)
Fixpoint read_all (s : fs) (nr : list path) : option (list nat) :=
  match nr with
  | [] => Some []
  | p :: r => match s p, read_all s r with
              | Some (ResF (Some a)), Some l => Some (a :: l)
              | _, _ => None
              end
  end.
Definition recover_product (nr : list path) (s : fs) : outcome (list nat) :=
  match read_all s nr with Some l => Ok l | None => Err end.
Definition first_written (ws : list wfile) : option path :=
  match ws with [] => None | w :: _ => Some (fst w) end.
(* the relation between the three name lists under which the theorems hold: every name that is read is
   written, and is removed beforehand unless it is the file written first *)
Definition names_ok_b (nd : list path) (ws : list wfile) (nr : list path) : bool :=
  forallb (fun p => mem_path p nd || match first_written ws with Some q => path_beq p q | None => false end) nr
  && forallb (fun p => mem_path p (map fst ws)) nr.

(* ------------------------------------------------------------------ workloads for the harness *)
Inductive workload :=
| WCreate (ps : list piece)
| WOverwrite (s0 : list (path * content)) (order : list path) (ps : list piece)
| WMeta (s0 : list (path * content))
| WBuild (s0 : list (path * content)) (ies : list (nat * nat)) (b : nat) (force : bool)
| WSingle (s0 : list (path * content)) (extra tail v : nat)
| WTriple (s0 : list (path * content)) (v : nat)
| WProduct (s0 : list (path * content)) (nd : list path) (ws : list wfile) (nr : list path) (v : nat)
| WCreateB (bps : list bpiece)
| WOverwriteB (s0 : list (path * content)) (order : list path) (bps : list bpiece).

Definition w_s0 (w : workload) : fs :=
  match w with
  | WCreate _ | WCreateB _ => empty_fs
  | WOverwriteB l _ _ | WOverwrite l _ _ | WMeta l | WBuild l _ _ _ | WSingle l _ _ _ | WTriple l _ | WProduct l _ _ _ _ => fs_of l
  end.
Definition ids_of (s : fs) : list nat := match s PIds with Some (IdsF ids) => ids | _ => [] end.

Definition w_ops (fixed : bool) (w : workload) : list fop :=
  match w with
  | WCreate ps => if fixed then ops_create ps else ops_create_pinned ps
  | WOverwrite _ order ps => if fixed then ops_overwrite order ps else ops_overwrite_pinned order ps
  | WMeta l => ops_metadata (fs_of l) (ids_of (fs_of l))
  | WBuild l ies b force => ops_build fixed (fs_of l) ies b force
  | WSingle _ extra tail v => ops_res_single extra tail v
  | WTriple l v => ops_triple fixed (fs_of l) v
  | WProduct l nd ws _ v => ops_product fixed (fs_of l) nd ws v
  | WCreateB bps => if fixed then ops_bcreate bps else ops_bcreate_pinned bps
  | WOverwriteB _ order bps => if fixed then ops_boverwrite order bps else ops_boverwrite_pinned order bps
  end.

(* outcome class of the crash state after k operations; req = the later request (tree workloads) *)
Definition w_class (fixed : bool) (w : workload) (k req : nat) : nat :=
  let s0 := w_s0 w in
  let ops := w_ops fixed w in
  let sk := apply (firstn k ops) s0 in
  let sf := apply ops s0 in
  match w with
  | WCreate _ | WOverwrite _ _ _ | WMeta _ | WCreateB _ | WOverwriteB _ _ _ =>
      classify obs_beq (recover_cat fixed sk) (recover_cat fixed s0) (recover_cat fixed sf)
  | WBuild _ ies _ _ =>
      let ids := ids_of s0 in
      classify nlist_eqb (measure sk ids req) (Ok (map (fun _ => req) ids)) (Ok (map (fun _ => req) ids))
  | WSingle _ _ _ _ => classify pair_beq (recover_single sk) (recover_single s0) (recover_single sf)
  | WTriple _ _ => classify pair_beq (recover_triple sk) (recover_triple s0) (recover_triple sf)
  | WProduct _ _ _ nr _ => classify nlist_eqb (recover_product nr sk) (recover_product nr s0) (recover_product nr sf)
  end.

(* (i) op-list conformance: the abstracted real trace equals the model's op list *)
Definition c08_ops (fixed : bool) (w : workload) (impl : list fop) : nat :=
  code [list_eqb fop_beq (w_ops fixed w) impl].

(* (ii) one crash point: flag0 = model class = implementation class; flag1 = the property itself
   (the implementation's outcome is an error, the old or the new state — never class 1) *)
Definition c08_case (fixed : bool) (w : workload) (k req impl_class : nat) : nat :=
  code [w_class fixed w k req =? impl_class; negb (impl_class =? 1)].

(* hypotheses of the theorems, evaluated on the concrete prior state *)
Definition wf_cat_b (s : fs) : bool :=
  present (s PRoot) &&
  match s PIds with
  | Some (IdsF ids) =>
      negb (is_nil ids) &&
      forallb (fun i => match patch_data (s (PData i)) with Some _ => true | None => false end
                        && match s (PMeta i) with None | Some (MetaF true) => true | _ => false end) ids
  | _ => false
  end.
Definition c08_hyp (w : workload) : nat :=
  match w with
  | WCreate _ | WCreateB _ => 0
  | WOverwrite l order _ | WOverwriteB l order _ => code [wf_cat_b (fs_of l); valid_order_b l order]
  | WMeta l => code [wf_cat_b (fs_of l)]
  | WBuild l ies _ _ =>
      code [wf_cat_b (fs_of l); forallb (consistent_b (fs_of l)) (ids_of (fs_of l));
            nlist_eqb (map fst ies) (ids_of (fs_of l))]
  | WSingle _ _ _ _ | WTriple _ _ => 0
  | WProduct _ nd ws nr _ => code [names_ok_b nd ws nr]
  end.

(* ------------------------------------------------------------------ deaths by unwinding *)
(* A process that dies because an exception travels up its stack (KeyboardInterrupt from SIGINT, SystemExit from a
   SIGTERM handler, an exception nobody catches) runs its handlers, __exit__ methods and finally blocks on the way,
   and these may issue further file operations.  What such a death leaves is therefore NOT a prefix of the operation
   list by construction.  The model says what the abort path of the catalog creation does; the checker decides, for
   the state an interrupted run really left, whether SOME crash point of the uninterrupted run leaves the same
   state (then the theorems about crash points speak about it).

   write_patches interrupted when the first j pieces have been handed to the writer:
   fin = false: the abort path (CatalogWriter.__exit__ with an exception; AbortQueue sent to the writer process):
                the patch writers are closed, nothing else is written;
   fin = true : the code of the regular end runs on the abort path as well (the end-of-queue sentinel from a
                finally block): finalize writes patch_ids.bin for what has arrived *)
Definition ops_create_unwound (fin : bool) (j : nat) (ps : list piece) : list fop :=
  ops_create_body (firstn j ps) ++ (if fin then ops_create_ids (firstn j ps) else []).
Definition ops_overwrite_unwound (fin : bool) (order : list path) (j : nat) (ps : list piece) : list fop :=
  map Del order ++ ops_create_unwound fin j ps.

(* states given as association lists, compared on a finite universe of paths *)
Definition ocontent_beq (a b : option content) : bool :=
  match a, b with Some x, Some y => content_beq x y | None, None => true | _, _ => false end.
Definition fs_eq_on (u : list path) (s1 s2 : fs) : bool := forallb (fun p => ocontent_beq (s1 p) (s2 p)) u.
Definition universe (l0 : list (path * content)) (ops : list fop) (l : list (path * content)) : list path :=
  map fst l0 ++ flat_map op_paths ops ++ map fst l.
(* is l the state SOME prefix of ops leaves, starting from l0? *)
Definition prefix_state_b (l0 : list (path * content)) (ops : list fop) (l : list (path * content)) : bool :=
  existsb (fun k => fs_eq_on (universe l0 ops l) (apply (firstn k ops) (fs_of l0)) (fs_of l)) (seq 0 (S (length ops))).

Definition w_s0l (w : workload) : list (path * content) :=
  match w with
  | WCreate _ | WCreateB _ => []
  | WOverwriteB l _ _ | WOverwrite l _ _ | WMeta l | WBuild l _ _ _ | WSingle l _ _ _ | WTriple l _ | WProduct l _ _ _ _ => l
  end.

(* outcome class of an ARBITRARY left-over state s (w_class is this at s = the state after k operations) *)
Definition w_class_at (fixed : bool) (w : workload) (s : fs) (req : nat) : nat :=
  let s0 := w_s0 w in
  let sf := apply (w_ops fixed w) s0 in
  match w with
  | WCreate _ | WOverwrite _ _ _ | WMeta _ | WCreateB _ | WOverwriteB _ _ _ =>
      classify obs_beq (recover_cat fixed s) (recover_cat fixed s0) (recover_cat fixed sf)
  | WBuild _ ies _ _ =>
      let ids := ids_of s0 in
      classify nlist_eqb (measure s ids req) (Ok (map (fun _ => req) ids)) (Ok (map (fun _ => req) ids))
  | WSingle _ _ _ _ => classify pair_beq (recover_single s) (recover_single s0) (recover_single sf)
  | WTriple _ _ => classify pair_beq (recover_triple s) (recover_triple s0) (recover_triple sf)
  | WProduct _ _ _ nr _ => classify nlist_eqb (recover_product nr s) (recover_product nr s0) (recover_product nr sf)
  end.

(* one interrupted run: l = what it left on disk.  flag0 = the model's recovery of that state gives the class the
   real recovery gave; flag1 = the property itself (never class 1); flag2 (when chk) = the state is one a crash at a
   system call of the uninterrupted run leaves as well *)
Definition c08_unwound (fixed : bool) (w : workload) (l : list (path * content)) (req impl_class : nat) (chk : bool) : nat :=
  code [w_class_at fixed w (fs_of l) req =? impl_class; negb (impl_class =? 1);
        negb chk || prefix_state_b (w_s0l w) (w_ops fixed w) l].

(* ------------------------------------------------------------------ mixed forms (catalog creation) *)
(* The two repairs of the creation are independent: how the id list reaches patch_ids.bin (w_ops: in place | aside + rename)
   and whether an empty id list is refused (recover_cat).  fo selects the operation list, fr the recovery; a working tree
   with only one of the repairs is compared with (fo, fr) = (false, true).  w_class2 b b = w_class b. *)
Definition create_like (w : workload) : bool :=
  match w with WCreate _ | WOverwrite _ _ _ | WCreateB _ | WOverwriteB _ _ _ => true | _ => false end.
Definition w_class2 (fo fr : bool) (w : workload) (k req : nat) : nat :=
  if create_like w then
    let s0 := w_s0 w in
    let ops := w_ops fo w in
    classify obs_beq (recover_cat fr (apply (firstn k ops) s0)) (recover_cat fr s0) (recover_cat fr (apply ops s0))
  else w_class fr w k req.
Definition c08_case2 (fo fr : bool) (w : workload) (k req impl_class : nat) : nat :=
  code [w_class2 fo fr w k req =? impl_class; negb (impl_class =? 1)].
Definition w_class_at2 (fo fr : bool) (w : workload) (s : fs) (req : nat) : nat :=
  if create_like w then
    let s0 := w_s0 w in
    classify obs_beq (recover_cat fr s) (recover_cat fr s0) (recover_cat fr (apply (w_ops fo w) s0))
  else w_class_at fr w s req.
Definition c08_unwound2 (fo fr : bool) (w : workload) (l : list (path * content)) (req impl_class : nat) (chk : bool) : nat :=
  code [w_class_at2 fo fr w (fs_of l) req =? impl_class; negb (impl_class =? 1);
        negb chk || prefix_state_b (w_s0l w) (w_ops fo w) l].
