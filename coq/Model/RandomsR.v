(* BoxRandoms._draw_coords over the reals: the cylindrical equal-area map.
     x_min, y_min = ra_min, sin(dec_min) ; x_max, y_max = ra_max, sin(dec_max)
     x = uniform(x_min, x_max) = x_min + u (x_max - x_min)     (u in [0,1])
     y = uniform(y_min, y_max) = y_min + v (y_max - y_min)     (v in [0,1])
     ra, dec = x, arcsin(y)
   Definitions only (not executable); proofs are in Proofs/RandomsRP.v. *)
From Coq Require Import Reals.
Open Scope R_scope.

Definition uniform (lo hi u : R) : R := lo + u * (hi - lo).

Definition ra_of (ra0 ra1 u : R) : R := uniform ra0 ra1 u.
Definition y_of (dec0 dec1 v : R) : R := uniform (sin dec0) (sin dec1) v.
Definition dec_of (dec0 dec1 v : R) : R := asin (y_of dec0 dec1 v).

(* the variant that draws the declination uniformly (no sin / arcsin) *)
Definition dec_flat (dec0 dec1 v : R) : R := uniform dec0 dec1 v.

(* area on the unit sphere of the window [ra0,ra1] x [dec0,dec1] *)
Definition window_area (ra0 ra1 dec0 dec1 : R) : R := (ra1 - ra0) * (sin dec1 - sin dec0).
