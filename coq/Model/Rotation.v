(* C13 — rigid rotations of the sphere as 3x3 orthogonal matrices over Q acting on 3-vectors, and the
   squared chord length the pair counter compares (Model/PairCount.v works on squared chords of unit vectors). *)
From Verif Require Import Prelude.
Open Scope Q_scope.

Definition v3 := (Q * Q * Q)%type.
Definition m3 := (v3 * v3 * v3)%type.          (* rows *)
Definition dot3 (u v : v3) : Q :=
  let '(a, b, c) := u in let '(x, y, z) := v in a * x + b * y + c * z.
Definition mv (R : m3) (u : v3) : v3 :=
  let '(r1, r2, r3) := R in (dot3 r1 u, dot3 r2 u, dot3 r3 u).
Definition col3 (R : m3) (k : nat) : v3 :=
  let '(r1, r2, r3) := R in
  let pick := fun r : v3 => let '(a, b, c) := r in match k with O => a | S O => b | _ => c end in
  (pick r1, pick r2, pick r3).
(* R^T R = I: the columns are orthonormal *)
Definition orth (R : m3) : Prop :=
  dot3 (col3 R 0) (col3 R 0) == 1 /\ dot3 (col3 R 1) (col3 R 1) == 1 /\ dot3 (col3 R 2) (col3 R 2) == 1 /\
  dot3 (col3 R 0) (col3 R 1) == 0 /\ dot3 (col3 R 0) (col3 R 2) == 0 /\ dot3 (col3 R 1) (col3 R 2) == 0.
Definition orthb (R : m3) : bool :=
  Qeqb (dot3 (col3 R 0) (col3 R 0)) 1 && Qeqb (dot3 (col3 R 1) (col3 R 1)) 1 && Qeqb (dot3 (col3 R 2) (col3 R 2)) 1 &&
  Qeqb (dot3 (col3 R 0) (col3 R 1)) 0 && Qeqb (dot3 (col3 R 0) (col3 R 2)) 0 && Qeqb (dot3 (col3 R 1) (col3 R 2)) 0.
Definition sub3 (u v : v3) : v3 :=
  let '(a, b, c) := u in let '(x, y, z) := v in (a - x, b - y, c - z).
Definition chord2 (u v : v3) : Q := dot3 (sub3 u v) (sub3 u v).
