(* C11 / C02 — patch_ids.bin as bytes: CatalogWriter.finalize writes np.sort(ids as int16).tofile, read_patch_ids reads
   np.fromfile(dtype="i2").tolist() and refuses an empty list.  np.fromfile ignores a trailing odd byte.
   ids are naturals; int16 is two's complement little endian: a byte pair above 2^15 reads back negative (Z). *)
From Coq Require Import List NArith ZArith Bool Lia Sorting.Mergesort.
From Verif Require Import PatchData.
Import ListNotations.
Open Scope N_scope.

Definition sort_ids (ids : list nat) : list nat := NatSort.sort ids.

(* astype(int16) of a non-negative id: the low 16 bits *)
Definition id_bytes (id : nat) : list N := le_bytes 2 (N.of_nat id mod 65536).
Definition ids_file (ids : list nat) : list N := flat_map id_bytes (sort_ids ids).

Definition int16_of (lo hi : N) : Z :=
  let v := lo + 256 * hi in if v <? 32768 then Z.of_N v else (Z.of_N v - 65536)%Z.

Fixpoint read_pairs (bs : list N) : list Z :=
  match bs with
  | lo :: hi :: t => int16_of lo hi :: read_pairs t
  | _ => []                                   (* nothing left, or one odd byte: ignored by np.fromfile *)
  end.
(* None = InconsistentPatchesError("patch info file is empty") *)
Definition read_ids (bs : list N) : option (list Z) :=
  match read_pairs bs with [] => None | l => Some l end.

Definition id_ok (id : nat) : bool := (N.of_nat id <? 32768).

(* ---------- correspondence checker ---------- *)
Definition zlist_eqb (a b : list Z) : bool :=
  Nat.eqb (length a) (length b) && forallb (fun p => Z.eqb (fst p) (snd p)) (combine a b).
(* ids: the keys of the writers (any order); file: the bytes of patch_ids.bin; probe: any byte string;
   readback: read_patch_ids on it (None = raised) *)
Definition c11_patchids_case (ids : list nat) (file probe : list N) (readback : option (list Z)) : nat :=
  (if nlist_eqb (ids_file ids) file then 0 else 1)%nat +
  (match read_ids probe, readback with
   | Some a, Some b => if zlist_eqb a b then 0 else 2
   | None, None => 0
   | _, _ => 2
   end)%nat.
