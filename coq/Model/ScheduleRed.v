(* C05 — what is computed from the gathered results.  The library reduces the per-patch rows with numpy
   (sum over axis 0): a fold with an operation that is neither associative nor commutative in floating point.
   Reducing in index order after keyed writes versus reducing in arrival order. *)
From Verif Require Import Prelude Schedule.

Section Red.
  Context {V R : Type}.
  (* the rows by index 0..n-1, as left in the store by the keyed writes *)
  Definition rows_by_index (n : nat) (st : @store V) : list (option V) := map st (seq 0 n).
  (* any function of those rows, e.g. a left-to-right floating-point sum *)
  Definition reduce_by_index (red : list (option V) -> R) (n : nat) (arr : list (nat * V)) : R :=
    red (rows_by_index n (run_writes arr empty_store)).
  (* the running total in arrival order *)
  Definition reduce_by_arrival (op : R -> V -> R) (zero : R) (arr : list (nat * V)) : R :=
    fold_left (fun acc kv => op acc (snd kv)) arr zero.
End Red.

(* a rounding addition on integers with precision relative to the magnitude, as floating point has: sums below 8
   are exact, larger ones are rounded to a multiple of 4 (towards zero) - small addends are absorbed by a large
   running total but not by each other *)
Definition rnd (x : Z) : Z := if (Z.abs x <? 8)%Z then x else (Z.quot x 4 * 4)%Z.
Definition radd (a b : Z) : Z := rnd (a + b).
