(* C10, near-equal binnings: the COMPARISON of binnings that decides whether cached trees are kept.
     binning.py:        Binning.__eq__            np.array_equal(edges) and closed ==
     catalog/trees.py:  BinnedTrees.binning_equal / BinnedTrees.build (rebuild unless equal or forced)
   Two edge arrays of the same length and closed side can differ in the last place only (np.linspace vs
   the same numbers typed by hand, zmin + k * step, text with 15 / 16 digits read back, float32 values
   widened, comoving / logspace edges regenerated); a redshift that sits exactly on one of the two
   variants of an edge (catalog values with two decimals) then lies in DIFFERENT bins of the two.
   The cache decision is modelled with the comparison as a parameter (patch_build_by); the exact
   comparison bkey_eqb gives Model/Binning.v's patch_build, a tolerant one (np.allclose: rtol, atol)
   is the variant refuted in Proofs/BinningEqP.v.
   Executable definitions only. *)
From Verif Require Import Prelude Binning.
Open Scope Q_scope.

(* ---------- tolerant comparison: np.allclose(a, b, rtol, atol), |a - b| <= atol + rtol * |b| ---------- *)
Definition qclose2 (rtol atol x y : Q) : bool := Qleb (Qabs (x - y)) (atol + rtol * Qabs y).
Definition qlist_close2 (rtol atol : Q) : list Q -> list Q -> bool := list_eqb (qclose2 rtol atol).
Definition binning_close (rtol atol : Q) (a b : binning) : bool :=
  Bool.eqb (fst a) (fst b) && qlist_close2 rtol atol (snd a) (snd b).
Definition bkey_close (rtol atol : Q) (a b : bkey) : bool :=
  match a, b with
  | None, None => true
  | Some x, Some y => binning_close rtol atol x y
  | _, _ => false
  end.

(* ---------- the cache decision with the comparison as a parameter ---------- *)
Definition needs_rebuild_by (eqk : bkey -> bkey -> bool) (force : bool) (k : bkey) (c : centry) : bool :=
  match c with
  | Some (k', _) => force || negb (eqk k' k)
  | None => true
  end.
Definition patch_build_by (eqk : bkey -> bkey -> bool) (hasw force : bool) (k : bkey) (objs : list obj)
    (c : centry) : centry :=
  if needs_rebuild_by eqk force k c then Some (k, trees_for hasw k objs) else c.
Fixpoint cat_build_by (eqk : bkey -> bkey -> bool) (hasw force : bool) (k : bkey) (patches : list (list obj))
    (c : list centry) : list centry :=
  match patches, c with
  | objs :: ps, e :: cs => patch_build_by eqk hasw force k objs e :: cat_build_by eqk hasw force k ps cs
  | _, _ => c
  end.

(* a valid binning: what parse_binning accepts *)
Definition binning_ok (a : binning) : bool := increasingb (snd a) && (2 <=? length (snd a))%nat.

(* what a comparison used by the cache decision has to guarantee: binnings that compare equal put EVERY
   redshift into the same bins *)
Definition cmp_sound (eqb : binning -> binning -> bool) : Prop :=
  forall a b, eqb a b = true -> forall k z, member (fst a) (snd a) k z <-> member (fst b) (snd b) k z.
(* what the cache has to guarantee (unforced build on a valid entry): the trees it holds afterwards are
   the trees of the binning requested NOW *)
Definition cache_correct (eqk : bkey -> bkey -> bool) : Prop :=
  forall hasw k objs c, entry_valid hasw objs c ->
    exists k', patch_build_by eqk hasw false k objs c = Some (k', trees_for hasw k objs).

(* ---------- checker: one observed comparison of two binnings ----------
   (cr, e) and (cr', e') are the binnings handed to the implementation (exact values of the float64 edges);
   impl_eq: a == b as the implementation answers, impl_ne: a != b, impl_cache: BinnedTrees.binning_equal of
   trees cached for a, asked for b (None: not observed)
   flags: 0 a == b is the exact comparison        1 a != b is its negation
          2 the cache's comparison is the exact comparison (when observed)
          3 binnings that the implementation calls equal put every edge / midpoint / outside value of
            either into the same bins
          4 hypotheses: both binnings valid *)
Definition c10_eq_case (cr : bool) (e : list Q) (cr' : bool) (e' : list Q)
    (impl_eq impl_ne : bool) (impl_cache : option bool) : nat :=
  let want := binning_eqb (cr, e) (cr', e') in
  code [
    Bool.eqb impl_eq want;
    Bool.eqb impl_ne (negb want);
    match impl_cache with Some c => Bool.eqb c want | None => true end;
    if impl_eq || match impl_cache with Some c => c | None => false end
    then same_members_on (probes_of e ++ probes_of e') (cr, e) (cr', e') else true;
    binning_ok (cr, e) && binning_ok (cr', e')
  ].
