(* Models of the persistence codecs (property C11):
     (a) correlation/paircounts.py: PatchedCounts.to_hdf / from_hdf  (sparse storage of the
         patch pairs that have a non-zero count in any bin; reader = zeros + set_patch_pair)
     (b) correlation/corrfunc.py: CorrFunc.to_hdf / from_hdf  (one HDF5 group per present member)
     (c) utils/misc.py: format_float_fixed_width  (f"{x: .{w}f}" cut to max(w, ndigits) characters)
         as integer arithmetic on the already rounded decimal, and the parse of the cut string
     (d) correlation/corrdata.py: write_data / write_samples / load_data / load_samples /
         CorrData.from_files  (np.loadtxt squeezes a one-line table to 1-D; repaired: ndmin=2)
     (e) config/combined.py + config/binning.py: Configuration.to_dict / from_dict, bin edges
         regenerated from (zmin, zmax, num_bins, method) by a generator [gen]
     (f) catalog/patch.py: Metadata.to_dict / from_dict
   Executable definitions and the correspondence checkers only; proofs are in Proofs/CodecP.v. *)
From Verif Require Import Prelude.
Open Scope Q_scope.

Definition nn_eqb (a b : nat * nat) : bool := (fst a =? fst b)%nat && (snd a =? snd b)%nat.
Definition is_some {A} (o : option A) : bool := match o with Some _ => true | None => false end.

(* =====================================================================================
   (a) sparse pair counts
   ===================================================================================== *)
Section Sparse.
  Context {A : Type} (zero : A) (iszero : A -> bool).

  (* counts[b, i, j] *)
  Definition arr3 := nat -> nat -> nat -> A.

  (* np.nonzero of an (N, N) mask lists the index pairs in row-major order *)
  Definition pairs (N : nat) : list (nat * nat) := list_prod (seq 0 N) (seq 0 N).
  (* counts[:, i, j] *)
  Definition bin_row (B : nat) (f : arr3) (ij : nat * nat) : list A :=
    map (fun b => f b (fst ij) (snd ij)) (seq 0 B).
  (* np.any(counts, axis=0)[i, j] *)
  Definition any_nonzero (r : list A) : bool := existsb (fun x => negb (iszero x)) r.

  (* to_hdf: patch_pairs = column_stack(nonzero(any(counts, axis=0)));
             binned_counts = moveaxis(counts[:, ids1, ids2], 0, -1)  *)
  Definition sparse_enc (B N : nat) (f : arr3) : list ((nat * nat) * list A) :=
    map (fun ij => (ij, bin_row B f ij))
        (filter (fun ij => any_nonzero (bin_row B f ij)) (pairs N)).

  (* set_patch_pair: counts[:, i, j] = row *)
  Definition set_pair (g : arr3) (e : (nat * nat) * list A) : arr3 :=
    fun b i j => if ((i =? fst (fst e)) && (j =? snd (fst e)))%nat then nth b (snd e) zero else g b i j.
  (* from_hdf: zeros, then set_patch_pair for every stored pair *)
  Definition sparse_dec (enc : list ((nat * nat) * list A)) : arr3 :=
    fold_left set_pair enc (fun _ _ _ => zero).
End Sparse.

(* list representation used by the correspondence check: M[b][i][j] *)
Definition get3 (M : list (list (list Q))) : arr3 (A := Q) :=
  fun b i j => nth j (nth i (nth b M []) []) 0.
Definition tab3 (B N : nat) (g : arr3 (A := Q)) : list (list (list Q)) :=
  map (fun b => map (fun i => map (fun j => g b i j) (seq 0 N)) (seq 0 N)) (seq 0 B).
Definition qmat3_eqb := list_eqb qmat_eqb.
Definition qzero (x : Q) : bool := Qeqb x 0.
Definition shape3 (B N : nat) (M : list (list (list Q))) : bool :=
  (length M =? B)%nat && forallb (fun m => (length m =? N)%nat && forallb (fun r => (length r =? N)%nat) m) M.

(* =====================================================================================
   (b) optional members of a CorrFunc
   ===================================================================================== *)
Inductive kind := DD | DR | RD | RR.     (* groups data_data, data_random, random_data, random_random *)
Definition kind_eqb (a b : kind) : bool :=
  match a, b with DD, DD | DR, DR | RD, RD | RR, RR => true | _, _ => false end.

Section Members.
  Context {A : Type}.
  Record members := { m_dd : A; m_dr : option A; m_rd : option A; m_rr : option A }.

  (* CorrFunc.__init__ raises EstimatorError when dr, rd and rr are all None *)
  Definition members_valid (m : members) : bool :=
    is_some (m_dr m) || is_some (m_rd m) || is_some (m_rr m).

  Definition opt_item (k : kind) (o : option A) : list (kind * A) :=
    match o with Some a => [(k, a)] | None => [] end.
  (* to_hdf: a group for every member of to_dict() (the members that are not None) *)
  Definition members_enc (m : members) : list (kind * A) :=
    (DD, m_dd m) :: opt_item DR (m_dr m) ++ opt_item RD (m_rd m) ++ opt_item RR (m_rr m).

  (* to_hdf AS IT STANDS: for name, count in zip(names, self.to_dict().values()) — to_dict()
     holds only the members that are not None, so the i-th PRESENT member is written under
     the i-th NAME *)
  Definition members_enc_current (m : members) : list (kind * A) :=
    combine [DD; DR; RD; RR] (map snd (members_enc m)).

  Fixpoint lookup_kind (k : kind) (l : list (kind * A)) : option A :=
    match l with
    | [] => None
    | (k', a) :: r => if kind_eqb k k' then Some a else lookup_kind k r
    end.
  (* from_hdf: _try_load for each name (None when the group is absent), then the constructor with these keywords *)
  Definition members_dec (l : list (kind * A)) : option members :=
    match lookup_kind DD l with
    | None => None
    | Some dd =>
        let m := {| m_dd := dd; m_dr := lookup_kind DR l; m_rd := lookup_kind RD l; m_rr := lookup_kind RR l |} in
        if members_valid m then Some m else None
    end.
End Members.
Arguments members : clear implicits.

(* =====================================================================================
   (c) fixed-width decimal format
   ===================================================================================== *)
Open Scope Z_scope.

(* number of decimal digits of n >= 0 ("0" has one digit) *)
Fixpoint ndig_fuel (fuel : nat) (n : Z) : Z :=
  match fuel with
  | O => 1
  | S f => if n <? 10 then 1 else 1 + ndig_fuel f (n / 10)
  end.
Definition int_digits (n : Z) : Z := ndig_fuel (S (Z.to_nat (Z.log2 n))) n.

(* the decimal produced by f"{x: .{w}f}": sign character (' ' or '-'), integer part,
   '.', exactly w fractional digits (frac < 10^w) — or one of the three words *)
Inductive dec_in := DFin (neg : bool) (ip frac : Z) | DNaN | DPInf | DNInf.
(* what ends up in the file: sign, integer part, the k kept fractional digits *)
Inductive token := TNum (neg : bool) (ip kept k : Z) | TNaN | TPInf | TNInf.
(* a float64 value as seen by the model *)
Inductive xval := XF (q : Q) | XNaN | XPInf | XNInf.

(* num_digits = len(string.split(".")[0]) counts the sign character *)
Definition fw_ndigits (ip : Z) : Z := 1 + int_digits ip.
(* string[: max(width, num_digits)] *)
Definition fw_len (w ip : Z) : Z := Z.max w (fw_ndigits ip).
(* fractional digits that survive the cut: the string is  sign+int (ndigits chars) '.' frac (w chars) *)
Definition fw_k (w ip : Z) : Z := Z.max 0 (fw_len w ip - fw_ndigits ip - 1).

Definition fw_write (w : Z) (d : dec_in) : token :=
  match d with
  | DFin neg ip frac => let k := fw_k w ip in TNum neg ip (frac / 10 ^ (w - k)) k
  | DNaN => TNaN | DPInf => TPInf | DNInf => TNInf
  end.

Definition dec_value (neg : bool) (ip num : Z) (digits : Z) : Q :=
  let v := (inject_Z ip + (num # Z.to_pos (10 ^ digits)))%Q in if neg then (- v)%Q else v.
(* float(token), before rounding to binary64 *)
Definition fw_read (t : token) : xval :=
  match t with
  | TNum neg ip kept k => XF (dec_value neg ip kept k)
  | TNaN => XNaN | TPInf => XPInf | TNInf => XNInf
  end.
(* the exactly rounded w-digit decimal *)
Definition dec_exact (w : Z) (d : dec_in) : xval :=
  match d with
  | DFin neg ip frac => XF (dec_value neg ip frac w)
  | DNaN => XNaN | DPInf => XPInf | DNInf => XNInf
  end.
Definition fw_parse (w : Z) (d : dec_in) : xval := fw_read (fw_write w d).
Definition dec_ok (w : Z) (d : dec_in) : bool :=
  match d with DFin _ ip frac => (0 <=? ip) && (0 <=? frac) && (frac <? 10 ^ w) | _ => true end.

Close Scope Z_scope.

Definition token_eqb (a b : token) : bool :=
  match a, b with
  | TNum n1 i1 f1 k1, TNum n2 i2 f2 k2 => Bool.eqb n1 n2 && (i1 =? i2)%Z && (f1 =? f2)%Z && (k1 =? k2)%Z
  | TNaN, TNaN | TPInf, TPInf | TNInf, TNInf => true
  | _, _ => false
  end.
Definition tol52 : Q := 1 # 4503599627370496.   (* 2^-52 *)
(* y is the binary64 nearest to the decimal p *)
Definition xval_close (y p : xval) : bool :=
  match y, p with
  | XF a, XF b => Qclose tol52 a b
  | XNaN, XNaN | XPInf, XPInf | XNInf, XNInf => true
  | _, _ => false
  end.
(* |x - D| <= 1/2 * 10^-w : D is a correct rounding of x to w decimals *)
Definition rounds_to (w : Z) (x : xval) (d : dec_in) : bool :=
  match x, dec_exact w d with
  | XF a, XF b => Qleb (Qabs (a - b)) (1 # (2 * Z.to_pos (10 ^ w)))
  | XNaN, XNaN | XPInf, XPInf | XNInf, XNInf => true
  | _, _ => false
  end.
(* the precision the format promises for a value with this integer part:
   |y - x| < 10^-k + 1/2 * 10^-w  (+ binary64 rounding of the parse) *)
Definition within_format (w : Z) (x : xval) (d : dec_in) (y : xval) : bool :=
  match x, d, y with
  | XF a, DFin _ ip _, XF b =>
      Qltb (Qabs (b - a)) ((1 # Z.to_pos (10 ^ fw_k w ip)) + (1 # (2 * Z.to_pos (10 ^ w))) + tol52 * Qabs b)
  | XNaN, _, XNaN | XPInf, _, XPInf | XNInf, _, XNInf => true
  | _, _, _ => false
  end.

(* =====================================================================================
   (d) text tables
   ===================================================================================== *)
Section Table.
  Context {V : Type} (dflt : V).

  (* result of np.loadtxt: 0-d, 1-d or 2-d (with its shape) *)
  Inductive ndarr := A0 (x : V) | A1 (l : list V) | A2 (nr nc : nat) (rows : list (list V)).

  (* np.loadtxt(path): default ndmin=0 squeezes axes of length one *)
  Definition loadtxt (lines : list (list V)) : ndarr :=
    let nr := length lines in
    let nc := length (hd [] lines) in
    if ((nr =? 1) && (nc =? 1))%nat then A0 (hd dflt (hd [] lines))
    else if (nr =? 1)%nat then A1 (hd [] lines)
    else if (nc =? 1)%nat then A1 (map (hd dflt) lines)
    else A2 nr nc lines.
  (* np.loadtxt(path, ndmin=2) — the repaired reader *)
  Definition loadtxt2 (lines : list (list V)) : ndarr :=
    A2 (length lines) (length (hd [] lines)) lines.

  (* .T (no-op below two dimensions) *)
  Definition transpose (a : ndarr) : ndarr :=
    match a with
    | A2 nr nc rows =>
        A2 nc nr (map (fun j => map (fun i => nth j (nth i rows []) dflt) (seq 0 nr)) (seq 0 nc))
    | _ => a
    end.

  (* zleft, zright, data, _ = loadtxt(path).T ; edges = append(zleft, zright[-1]).
     A 1-d array of four numbers unpacks into scalars and zright[-1] raises IndexError;
     any other shape fails to unpack. *)
  Definition load_data (a : ndarr) : option (list V * list V) :=
    match a with
    | A2 _ _ [zl; zr; d; _] => Some (zl ++ [last zr dflt], d)
    | _ => None
    end.
  (* loadtxt(path).T[2:] *)
  Definition load_samples (a : ndarr) : option ndarr :=
    match a with
    | A2 nr nc rows => Some (A2 (nr - 2) nc (skipn 2 rows))
    | A1 l => Some (A1 (skipn 2 l))
    | A0 _ => None
    end.

  (* CorrData.from_files, with the loader as a parameter; the SampledData constructor wants
     data.shape == (num_bins,), samples.ndim == 2 and samples.shape[1] == num_bins *)
  Definition from_files (rd : list (list V) -> ndarr) (dat smp : list (list V))
    : option (list V * list V * list (list V)) :=
    match load_data (transpose (rd dat)) with
    | None => None
    | Some (edges, data) =>
        match load_samples (transpose (rd smp)) with
        | Some (A2 _ nc rows) =>
            if ((length data =? length edges - 1) && (nc =? length edges - 1))%nat
            then Some (edges, data, rows) else None
        | _ => None
        end
    end.
  Definition from_files_current := from_files loadtxt.
  Definition from_files_fixed := from_files loadtxt2.

  (* writers: one line per bin *)
  Definition lefts (edges : list V) : list V := removelast edges.
  Definition rights (edges : list V) : list V := tl edges.
  Definition num_bins (edges : list V) : nat := length edges - 1.
  Definition dat_lines (edges data err : list V) : list (list V) :=
    map (fun b => [nth b (lefts edges) dflt; nth b (rights edges) dflt; nth b data dflt; nth b err dflt])
        (seq 0 (num_bins edges)).
  (* zip(zleft, zright, samples.T) *)
  Definition smp_lines (edges : list V) (samples : list (list V)) : list (list V) :=
    map (fun b => nth b (lefts edges) dflt :: nth b (rights edges) dflt :: map (fun s => nth b s dflt) samples)
        (seq 0 (num_bins edges)).
End Table.
Arguments ndarr : clear implicits.

(* =====================================================================================
   (e) configuration
   ===================================================================================== *)
Inductive bmethod := Linear | Comoving | Logspace.
Definition bmethod_eqb (a b : bmethod) : bool :=
  match a, b with Linear, Linear | Comoving, Comoving | Logspace, Logspace => true | _, _ => false end.

Section Config.
  (* E: bin-edge values (binary64 bit patterns), C: cosmology names, Sc: the scales section
     (carried through unchanged).
     gen: RedshiftBinningFactory(cosmology).get_method(method)(zmin, zmax, num_bins).edges —
     a function of exactly these arguments (no other state enters the regeneration). *)
  Context {E C Sc : Type} (gen : C -> bmethod -> E -> E -> nat -> list E) (dflt : E).

  Inductive bcfg := Auto (m : bmethod) (edges : list E) (closed_left : bool)
                  | Custom (edges : list E) (closed_left : bool).
  Record config := { c_scales : Sc; c_binning : bcfg; c_cosmo : C; c_workers : option nat }.

  (* the YAML mapping of the binning section; d_method = None stands for "custom" *)
  Record bdict := { d_method : option bmethod; d_zmin : option E; d_zmax : option E;
                    d_num : option nat; d_edges : option (list E); d_closed : bool }.
  Record cdict := { cd_scales : Sc; cd_binning : bdict; cd_cosmo : C; cd_workers : option nat }.

  Definition binning_to_dict (b : bcfg) : bdict :=
    match b with
    | Auto m e c => {| d_method := Some m; d_zmin := Some (hd dflt e); d_zmax := Some (last e dflt);
                       d_num := Some (length e - 1)%nat; d_edges := None; d_closed := c |}
    | Custom e c => {| d_method := None; d_zmin := None; d_zmax := None; d_num := None;
                       d_edges := Some e; d_closed := c |}
    end.
  Definition to_dict (c : config) : cdict :=
    {| cd_scales := c_scales c; cd_binning := binning_to_dict (c_binning c);
       cd_cosmo := c_cosmo c; cd_workers := c_workers c |}.

  Definition regenerate (cosmo : C) (d : bdict) : option bcfg :=
    match d_method d, d_zmin d, d_zmax d, d_num d with
    | Some m, Some a, Some b, Some n => Some (Auto m (gen cosmo m a b n) (d_closed d))
    | _, _, _, _ => None
    end.
  (* BinningConfig.from_dict as it stands: the custom branch passes the left-over keys
     zmin/zmax/num_bins (present with value null in every dict written by to_dict) to
     __init__ -> TypeError -> ConfigError *)
  Definition binning_from_dict_current (cosmo : C) (d : bdict) : option bcfg :=
    match d_edges d with
    | Some _ => None
    | None => regenerate cosmo d
    end.
  (* repaired: the custom branch builds Binning(edges, closed) *)
  Definition binning_from_dict_fixed (cosmo : C) (d : bdict) : option bcfg :=
    match d_edges d with
    | Some e => Some (Custom e (d_closed d))
    | None => regenerate cosmo d
    end.
  Definition from_dict (bfd : C -> bdict -> option bcfg) (d : cdict) : option config :=
    match bfd (cd_cosmo d) (cd_binning d) with
    | Some b => Some {| c_scales := cd_scales d; c_binning := b; c_cosmo := cd_cosmo d; c_workers := cd_workers d |}
    | None => None
    end.
  Definition from_dict_current := from_dict binning_from_dict_current.
  Definition from_dict_fixed := from_dict binning_from_dict_fixed.

  (* Configuration.create with zmin/zmax *)
  Definition create (s : Sc) (cosmo : C) (m : bmethod) (a b : E) (n : nat) (closed_left : bool)
             (workers : option nat) : config :=
    {| c_scales := s; c_binning := Auto m (gen cosmo m a b n) closed_left; c_cosmo := cosmo; c_workers := workers |}.
  Definition create_custom (s : Sc) (cosmo : C) (e : list E) (closed_left : bool) (workers : option nat) : config :=
    {| c_scales := s; c_binning := Custom e closed_left; c_cosmo := cosmo; c_workers := workers |}.

  (* the generated edges start at zmin, end at zmax and there are num_bins + 1 of them *)
  Definition endpoints_exact_at (cosmo : C) (m : bmethod) (a b : E) (n : nat) : Prop :=
    hd dflt (gen cosmo m a b n) = a /\ last (gen cosmo m a b n) dflt = b /\ length (gen cosmo m a b n) = S n.
End Config.

(* exact generators over Q used for non-vacuity / refutation instances *)
(* np.linspace(a, b, n + 1): start + i * step, last element set to stop *)
Definition linspace_snap (a b : Q) (n : nat) : list Q :=
  match n with
  | O => [a]
  | S _ => map (fun i => Qred (a + inject_Z (Z.of_nat i) * ((b - a) / inject_Z (Z.of_nat n)))) (seq 0 n) ++ [b]
  end.
Definition gen_linear (_ : unit) (_ : bmethod) (a b : Q) (n : nat) : list Q :=
  match linspace_snap a b n with [] => [] | _ :: r => a :: r end.
(* a generator whose first edge is off the requested zmin by 1e-9 (stands for an edge generator
   whose end points are not the requested ones, like z_at_value(comoving_distance(z))) *)
Definition gen_drift (u : unit) (m : bmethod) (a b : Q) (n : nat) : list Q :=
  gen_linear u m (Qred (a + (1 # 1000000000))) b n.

(* =====================================================================================
   (f) patch metadata
   ===================================================================================== *)
Inductive mkey := KNum | KSum | KCenter | KRadius.
Definition mkey_eqb (a b : mkey) : bool :=
  match a, b with KNum, KNum | KSum, KSum | KCenter, KCenter | KRadius, KRadius => true | _, _ => false end.

Section Meta.
  Context {F : Type}.
  Record metadata := { num_records : Z; sum_weights : F; center : F * F; radius : F }.
  (* YAML scalars / sequences that occur *)
  Inductive yval := YInt (z : Z) | YFloat (x : F) | YSeq (l : list yval).

  (* to_dict: num_records=int(..), sum_weights=float(..), center=center.tolist()[0], radius=radius.tolist()[0] *)
  Definition meta_to_dict (m : metadata) : list (mkey * yval) :=
    [ (KNum, YInt (num_records m)); (KSum, YFloat (sum_weights m));
      (KCenter, YSeq [YFloat (fst (center m)); YFloat (snd (center m))]); (KRadius, YFloat (radius m)) ].
  Fixpoint lookup_mkey (k : mkey) (l : list (mkey * yval)) : option yval :=
    match l with
    | [] => None
    | (k', v) :: r => if mkey_eqb k k' then Some v else lookup_mkey k r
    end.
  (* from_dict: center/radius popped and wrapped, the rest passed as keywords *)
  Definition meta_from_dict (d : list (mkey * yval)) : option metadata :=
    match lookup_mkey KNum d, lookup_mkey KSum d, lookup_mkey KCenter d, lookup_mkey KRadius d with
    | Some (YInt n), Some (YFloat s), Some (YSeq [YFloat a; YFloat b]), Some (YFloat r) =>
        if (length d =? 4)%nat then Some {| num_records := n; sum_weights := s; center := (a, b); radius := r |} else None
    | _, _, _, _ => None
    end.
End Meta.
Arguments metadata : clear implicits.
Arguments yval : clear implicits.

(* =====================================================================================
   correspondence checkers (evaluated by harness/props/c11.py; not used in proofs)
   ===================================================================================== *)

(* --- HDF5, one NormalisedCounts member ---
   M: counts written (B x N x N); stored_pairs / stored_rows: datasets patch_pairs and
   binned_counts as found in the file; M': counts of the object read back.
   flags: [writer agrees with sparse_enc; reader agrees with sparse_dec on the stored lists;
           M' = M entrywise and well shaped] *)
Definition c11_case_sparse (B N : nat) (M : list (list (list Q)))
           (stored_pairs : list (nat * nat)) (stored_rows : list (list Q))
           (M' : list (list (list Q))) : nat :=
  let enc := sparse_enc qzero B N (get3 M) in
  code [ list_eqb nn_eqb (map fst enc) stored_pairs && qmat_eqb (map snd enc) stored_rows;
         qmat3_eqb (tab3 B N (sparse_dec 0 (combine stored_pairs stored_rows))) M';
         shape3 B N M && shape3 B N M' && qmat3_eqb M' M ].

(* --- HDF5, the member groups ---
   present: (dr, rd, rr) of the written object; groups: member groups found in the file (in
   the order DD, DR, RD, RR); after: (dr, rd, rr) of the object read back, None if reading raised.
   flags: [groups = members_enc (repaired writer) or members_enc_current (writer as it stands);
           after = members_dec groups;
           after = present and every member sits in the group of its own name] *)
Definition mk_members (p : bool * bool * bool) : members unit :=
  let '(a, b, c) := p in
  {| m_dd := tt; m_dr := if a then Some tt else None; m_rd := if b then Some tt else None;
     m_rr := if c then Some tt else None |}.
Definition presence (m : members unit) : bool * bool * bool := (is_some (m_dr m), is_some (m_rd m), is_some (m_rr m)).
Definition b3_eqb (x y : bool * bool * bool) : bool :=
  let '(a, b, c) := x in let '(a', b', c') := y in Bool.eqb a a' && Bool.eqb b b' && Bool.eqb c c'.
Definition ob3_eqb (x y : option (bool * bool * bool)) : bool :=
  match x, y with Some a, Some b => b3_eqb a b | None, None => true | _, _ => false end.
Definition c11_case_members (present : bool * bool * bool) (groups : list kind)
           (after : option (bool * bool * bool)) : nat :=
  let m := mk_members present in
  code [ list_eqb kind_eqb (map fst (members_enc m)) groups
         || list_eqb kind_eqb (map fst (members_enc_current m)) groups;
         ob3_eqb (option_map presence (members_dec (map (fun k => (k, tt)) groups))) after;
         ob3_eqb after (Some present) && list_eqb kind_eqb (map fst (members_enc m)) groups ].
(* which writer model the group names follow: 1 = current (positional), 2 = repaired, 3 = both coincide *)
Definition c11_members_writer (present : bool * bool * bool) (groups : list kind) : nat :=
  let m := mk_members present in
  ((if list_eqb kind_eqb (map fst (members_enc_current m)) groups then 1 else 0)
   + (if list_eqb kind_eqb (map fst (members_enc m)) groups then 2 else 0))%nat.

(* --- text files ---
   w: PRECISION. Per cell: x = value written, d = its decimal f"{x: .{w}f}" as digits.
   edges (nb+1), data (nb), err (nb), samples (M x nb) as (x, d) pairs; dat_tokens / smp_tokens:
   the fields found in the two files; reread: edges, data, samples of the object read back
   (None if from_files raised).
   flags: [every d is a correct rounding of its x (hypothesis on the harness input);
           the files hold exactly the tokens the writer model produces;
           the object read back is what the reader model (current or repaired) yields on these tokens;
           the object read back has the shape and, cell by cell, the precision promised by the format] *)
Definition cell := (xval * dec_in)%type.
Definition xv_dflt : xval := XNaN.
Definition tok_dflt : token := TNaN.
Definition reread_t := option (list xval * list xval * list (list xval)).

Definition cells_ok (w : Z) (l : list cell) : bool :=
  forallb (fun c => dec_ok w (snd c) && rounds_to w (fst c) (snd c)) l.
Definition wr (w : Z) (l : list cell) : list token := map (fun c => fw_write w (snd c)) l.
Definition reread_close (model : option (list token * list token * list (list token))) (r : reread_t) : bool :=
  match model, r with
  | None, None => true
  | Some (e, d, s), Some (e', d', s') =>
      list_eqb xval_close e' (map fw_read e) && list_eqb xval_close d' (map fw_read d)
      && list_eqb (list_eqb xval_close) s' (map (map fw_read) s)
  | _, _ => false
  end.
Fixpoint forallb2 {A B} (p : A -> B -> bool) (l1 : list A) (l2 : list B) : bool :=
  match l1, l2 with
  | [], [] => true
  | a :: r1, b :: r2 => p a b && forallb2 p r1 r2
  | _, _ => false
  end.
Definition cells_within (w : Z) (l : list cell) (ys : list xval) : bool :=
  forallb2 (fun c y => within_format w (fst c) (snd c) y) l ys.

Definition c11_case_ascii (w : Z) (edges data err : list cell) (samples : list (list cell))
           (dat_tokens smp_tokens : list (list token)) (reread : reread_t) : nat :=
  let dat := dat_lines tok_dflt (wr w edges) (wr w data) (wr w err) in
  let smp := smp_lines tok_dflt (wr w edges) (map (wr w) samples) in
  code [ cells_ok w edges && cells_ok w data && cells_ok w err && forallb (cells_ok w) samples;
         list_eqb (list_eqb token_eqb) dat dat_tokens && list_eqb (list_eqb token_eqb) smp smp_tokens;
         reread_close (from_files_current tok_dflt dat_tokens smp_tokens) reread
         || reread_close (from_files_fixed tok_dflt dat_tokens smp_tokens) reread;
         match reread with
         | Some (e', d', s') => cells_within w edges e' && cells_within w data d' && forallb2 (cells_within w) samples s'
         | None => false
         end ].
(* which reader model the implementation followed: 1 = current, 2 = repaired, 3 = both coincide *)
Definition c11_ascii_reader (dat_tokens smp_tokens : list (list token)) (reread : reread_t) : nat :=
  ((if reread_close (from_files_current tok_dflt dat_tokens smp_tokens) reread then 1 else 0)
   + (if reread_close (from_files_fixed tok_dflt dat_tokens smp_tokens) reread then 2 else 0))%nat.

(* --- configuration ---
   The generator is the implementation's own (an oracle): [regen] is its output on the
   parameters found in the YAML file.
   req_*: what was passed to create (None for custom edges); edges: binning.edges of the
   written object; yaml_*: the binning section of the file; regen: generator output on the
   stored parameters (None for custom); reread: binning.edges after from_file (None if it raised).
   flags: [to_dict agrees: stored zmin/zmax/num_bins/edges are hd/last/length-1/edges of the object;
           from_dict agrees with the current or the repaired model (reread = regen, resp. stored edges);
           spec: reread edges = edges, bit for bit;
           hypothesis endpoints_exact_at holds for this case (auto methods)] *)
Definition oq_eqb (a b : option Q) : bool :=
  match a, b with Some x, Some y => Qeqb x y | None, None => true | _, _ => false end.
Definition oql_eqb (a b : option (list Q)) : bool :=
  match a, b with Some x, Some y => qlist_eqb x y | None, None => true | _, _ => false end.
Definition on_eqb (a b : option nat) : bool :=
  match a, b with Some x, Some y => (x =? y)%nat | None, None => true | _, _ => false end.

Definition c11_case_config (custom : bool) (req_zmin req_zmax : option Q) (req_num : option nat)
           (edges : list Q)
           (yaml_zmin yaml_zmax : option Q) (yaml_num : option nat) (yaml_edges : option (list Q))
           (regen : option (list Q)) (reread : option (list Q)) : nat :=
  let b := if custom then Custom edges false else Auto Linear edges false in
  let d := binning_to_dict (E := Q) 0 b in
  code [ oq_eqb (d_zmin d) yaml_zmin && oq_eqb (d_zmax d) yaml_zmax && on_eqb (d_num d) yaml_num
         && oql_eqb (d_edges d) yaml_edges;
         (if custom then oql_eqb reread None || oql_eqb reread yaml_edges else oql_eqb reread regen);
         oql_eqb reread (Some edges);
         custom || (oq_eqb (Some (hd 0 edges)) req_zmin && oq_eqb (Some (last edges 0)) req_zmax
                    && on_eqb (Some (length edges - 1)%nat) req_num) ].

(* --- metadata --- written record and the record read back (None if reading raised)
   flags: [the reader model on the writer model's dict gives the record read back; equal] *)
Definition qmeta_eqb (a b : metadata Q) : bool :=
  (num_records a =? num_records b)%Z && Qeqb (sum_weights a) (sum_weights b)
  && Qeqb (fst (center a)) (fst (center b)) && Qeqb (snd (center a)) (snd (center b))
  && Qeqb (radius a) (radius b).
Definition ometa_eqb (a b : option (metadata Q)) : bool :=
  match a, b with Some x, Some y => qmeta_eqb x y | None, None => true | _, _ => false end.
Definition mk_meta (n : Z) (s a b r : Q) : metadata Q :=
  {| num_records := n; sum_weights := s; center := (a, b); radius := r |}.
Definition c11_case_meta (m : metadata Q) (after : option (metadata Q)) : nat :=
  code [ ometa_eqb (meta_from_dict (meta_to_dict m)) after; ometa_eqb after (Some m) ].
