(* Model of the LEGACY file layout of pair counts (files written by yaw < 3.0, recognised by the missing
   `version` tag) and of its decoding into the current containers (C04):
     utils/misc.py             : is_legacy_dataset
     binning.py                : load_legacy_binning
     correlation/paircounts.py : PatchedCounts.from_hdf      (group `count`: n_patches, keys, data, auto)
                                 PatchedSumWeights.from_hdf  (group `total`: totals1, totals2, auto)
                                 NormalisedCounts.from_hdf   (groups `count` / `total`)
     correlation/corrfunc.py   : CorrFunc.from_hdf           (data_data, data_random, random_data, random_random)
   A legacy member stores
     keys    : the patch pairs (i, j) that have an entry,       data    : one row per key, one value per bin,
     totals1 : the sums of weights of the FIRST sample,  shape (patches, bins)  - patch-major, the current
     totals2 : the sums of weights of the SECOND sample, shape (patches, bins)    layout is bin-major.
   The property's terms are total pair count / (total weight of sample 1 * total weight of sample 2); the two
   samples of a cross-correlation term (and of the data-random term of an autocorrelation) have different
   totals, so which dataset lands in which role of the container matters.  No proofs in this file. *)
From Verif Require Import Prelude Jackknife Estimators.
Open Scope Q_scope.

Record legacy := {
  lg_auto : bool;
  lg_npatch : nat;
  lg_keys : list (nat * nat);
  lg_data : list (list Q);          (* row r = the counts of pair (nth r keys) in every bin *)
  lg_totals1 : list (list Q);       (* (patches, bins) *)
  lg_totals2 : list (list Q) }.

(* np.transpose of a (rows, B) table: B rows *)
Definition transpose (B : nat) (M : list (list Q)) : list (list Q) :=
  map (fun b => map (fun r => nth b r 0) M) (seq 0 B).

Definition key_eqb (a b : nat * nat) : bool := Nat.eqb (fst a) (fst b) && Nat.eqb (snd a) (snd b).
(* the row stored for a pair: the LAST entry of the key wins (the loop of set_patch_pair calls) *)
Fixpoint lookup (k : nat * nat) (keys : list (nat * nat)) (data : list (list Q)) (acc : option (list Q))
  : option (list Q) :=
  match keys, data with
  | k' :: ks, r :: rs => lookup k ks rs (if key_eqb k k' then Some r else acc)
  | _, _ => acc
  end.
(* the dense counts (bins, patches, patches): the entry of a pair without key is zero *)
Definition scatter (B N : nat) (keys : list (nat * nat)) (data : list (list Q)) : list mat :=
  map (fun b => map (fun i => map (fun j =>
    match lookup (i, j) keys data None with Some r => nth b r 0 | None => 0 end) (seq 0 N)) (seq 0 N)) (seq 0 B).

(* the decoding as the property needs it: roles kept *)
Definition decode (B : nat) (l : legacy) : pc :=
  {| pc_auto := lg_auto l;
     pc_counts := scatter B (lg_npatch l) (lg_keys l) (lg_data l);
     pc_w1 := transpose B (lg_totals1 l);
     pc_w2 := transpose B (lg_totals2 l) |}.

(* the decoding as the code performs it: PatchedCounts.zeros, then set_patch_pair key by key *)
Definition zeros (B N : nat) : list mat := repeat (repeat (repeat 0 N) N) B.
Definition pad (B : nat) (r : list Q) : list Q := map (fun b => nth b r 0) (seq 0 B).
Definition decode_loop (B : nat) (l : legacy) : pc :=
  fold_left (fun p kr => pc_set (fst (fst kr)) (snd (fst kr)) (pad B (snd kr)) p)
            (combine (lg_keys l) (lg_data l))
            {| pc_auto := lg_auto l; pc_counts := zeros B (lg_npatch l);
               pc_w1 := transpose B (lg_totals1 l); pc_w2 := transpose B (lg_totals2 l) |}.

(* ------------------------------------------------ different decoders, for contrast *)
(* (Proofs: decode_first_twice_agrees_equal_totals / _refuted) both roles filled from totals1: nothing
   changes for a member whose two samples are one and the same (dd and rr of an autocorrelation) *)
Definition decode_first_twice (B : nat) (l : legacy) : pc :=
  {| pc_auto := lg_auto l;
     pc_counts := scatter B (lg_npatch l) (lg_keys l) (lg_data l);
     pc_w1 := transpose B (lg_totals1 l);
     pc_w2 := transpose B (lg_totals1 l) |}.
(* (Proofs: decode_swapped_same_cross_denominator / _refuted) the two roles exchanged: every term of a
   cross-correlation, value and jackknife samples, is unchanged (the product commutes) - only the stored
   fields, and the terms of an autocorrelation of two different samples, tell *)
Definition decode_swapped (B : nat) (l : legacy) : pc :=
  {| pc_auto := lg_auto l;
     pc_counts := scatter B (lg_npatch l) (lg_keys l) (lg_data l);
     pc_w1 := transpose B (lg_totals2 l);
     pc_w2 := transpose B (lg_totals1 l) |}.
(* no transposition (a (patches, bins) table taken for a (bins, patches) one) is visible unless
   patches = bins; then it exchanges patches and bins silently *)
Definition decode_untransposed (B : nat) (l : legacy) : pc :=
  {| pc_auto := lg_auto l;
     pc_counts := scatter B (lg_npatch l) (lg_keys l) (lg_data l);
     pc_w1 := lg_totals1 l;
     pc_w2 := lg_totals2 l |}.

(* the totals of bin b over all patches, read off the legacy tables *)
Definition legacy_total1 (l : legacy) (b : nat) : Q := colsum (lg_totals1 l) b.
Definition legacy_total2 (l : legacy) (b : nat) : Q := colsum (lg_totals2 l) b.
(* the sum of all data rows in bin b (distinct keys: the total pair count of the bin) *)
Definition legacy_count (l : legacy) (b : nat) : Q := qsum (map (fun r => nth b r 0) (lg_data l)).
(* the documented term of bin b of a cross-correlation member on the legacy numbers *)
Definition legacy_term (l : legacy) (b : nat) : Q := legacy_count l b / (legacy_total1 l b * legacy_total2 l b).

(* well-formed file: the tables are rectangular *)
Definition rect (B : nat) (M : list (list Q)) : Prop := forall r, In r M -> length r = B.
Definition rectb (B : nat) (M : list (list Q)) : bool := forallb (fun r => Nat.eqb (length r) B) M.
Definition keys_in_range (N : nat) (keys : list (nat * nat)) : bool :=
  forallb (fun k => Nat.ltb (fst k) N && Nat.ltb (snd k) N) keys.
Fixpoint keys_distinct (keys : list (nat * nat)) : bool :=
  match keys with
  | [] => true
  | k :: ks => negb (existsb (key_eqb k) ks) && keys_distinct ks
  end.
Definition legacy_wf (B : nat) (l : legacy) : bool :=
  rectb B (lg_data l) && rectb B (lg_totals1 l) && rectb B (lg_totals2 l)
  && Nat.eqb (length (lg_totals1 l)) (lg_npatch l) && Nat.eqb (length (lg_totals2 l)) (lg_npatch l)
  && Nat.eqb (length (lg_keys l)) (length (lg_data l)) && keys_in_range (lg_npatch l) (lg_keys l).

(* ------------------------------------------------ a correlation function in legacy files *)
Record lcf := { l_dd : legacy; l_dr : option legacy; l_rd : option legacy; l_rr : option legacy }.
Definition decode_cf_with (dec : nat -> legacy -> pc) (B : nat) (c : lcf) : cfs :=
  {| cf_dd := dec B (l_dd c); cf_dr := option_map (dec B) (l_dr c);
     cf_rd := option_map (dec B) (l_rd c); cf_rr := option_map (dec B) (l_rr c) |}.
Definition decode_cf := decode_cf_with decode.
Definition lcf_wf (B : nat) (c : lcf) : bool :=
  let o x := match x with Some l => legacy_wf B l | None => true end in
  legacy_wf B (l_dd c) && o (l_dr c) && o (l_rd c) && o (l_rr c).

(* ------------------------------------------------ correspondence *)
(* C04 on a legacy file: c = the numbers the harness wrote (legacy layout), restored = what the CorrFunc read
   from the file stores (None: the reading raised, nothing to compare; Some None: a stored number is not
   finite), impl = what its sample() returns (None: reading or sampling raised).
   bits 0, 1, 2, 4 as c04_corr_case_x on the decoded containers; bit 3: the stored arrays are the decoded
   ones, role by role (w1 from totals1, w2 from totals2); 32: the literal model of the reading loop differs
   from `decode` or the harness wrote an ill-formed file (a mistake of the harness or of the model). *)
Definition c04_legacy_case (B N : nat) (c : lcf) (restored : option (option cfs))
           (impl : option (list oq * list (list oq))) : nat :=
  let s := decode_cf B c in
  (c04_corr_case_x N (cf_dd s) (cf_dr s) (cf_rd s) (cf_rr s) impl
   + 8 * code [ match restored with
                | None => true
                | Some (Some a) => cfs_eqb s a
                | Some None => false
                end ]
   + 32 * code [ lcf_wf B c && cfs_eqb s (decode_cf_with decode_loop B c) ])%nat.

(* n(z) of three correlation functions read from files (cross, reference auto, unknown auto) against the
   exact model values on the numbers written (Estimators: meas_nz_row_ok, first-order error bound);
   a member read from a file in the current layout is given as its containers *)
Inductive stored := S_legacy (c : lcf) | S_current (s : cfs).
Definition stored_cfs (B : nat) (x : stored) : cfs :=
  match x with S_legacy c => decode_cf B c | S_current s => s end.
Definition cfs_red (s : cfs) : cfs :=
  let red (p : pc) : pc :=
    {| pc_auto := pc_auto p; pc_counts := map (map (map Qred)) (pc_counts p);
       pc_w1 := map (map Qred) (pc_w1 p); pc_w2 := map (map Qred) (pc_w2 p) |} in
  {| cf_dd := red (cf_dd s); cf_dr := option_map red (cf_dr s); cf_rd := option_map red (cf_rd s);
     cf_rr := option_map red (cf_rr s) |}.
Definition c04_legacy_nz_case (dz : list Q) (N : nat) (cross : stored) (ref unk : option stored)
           (nz_d : list oq) (nz_s : list (list oq)) : nat :=
  let B := length dz in
  let f x := cfs_red (stored_cfs B x) in
  let c := f cross in
  let r := option_map f ref in
  let u := option_map f unk in
  let cs := cfs_samples N c in
  let rs := option_map (cfs_samples N) r in
  let us := option_map (cfs_samples N) u in
  code [ meas_nz_row_ok dz (cfs_data c) (option_map cfs_data r) (option_map cfs_data u) nz_d;
         Nat.eqb (length nz_s) N
         && forallb (fun k => meas_nz_row_ok dz (nth k cs []) (option_map (fun m => nth k m []) rs)
                                (option_map (fun m => nth k m []) us) (nth k nz_s [])) (seq 0 N) ].
