(* Model of the random generators and of the random reader
     randoms.py : RandomsBase.reseed / __call__ / _draw_attributes, BoxRandoms._draw_coords
     catalog/readers.py : RandomReader.__init__ / _reset_iter_state / __iter__ /
                          _get_next_chunk / get_probe
     catalog/catalog.py : Catalog.from_random
   The generator is a state machine over an abstract PRNG: the state is the seed in force
   and the position in the stream that this seed determines.  One call gen(k) draws
   [width] vectors of k samples, one after the other (BoxRandoms: x, then y, then - when
   weights/redshifts are attached - ONE index vector that selects both attributes).
   Executable definitions only; proofs are in Proofs/RandomsP.v.  The real-number part
   (cylindrical equal-area map) is in Model/RandomsR.v. *)
From Verif Require Import Prelude Chunks.
Open Scope nat_scope.

(* ---------- what the harness can see of a generator: reseed() and __call__(k) ---------- *)
Inductive event := EReseed | ECall (k : nat).

(* ---------- operations on one generator object ---------- *)
Inductive op {seed : Type} :=
| SetSeed (s : seed)        (* gen.reseed(s)            : new seed, stream restarts *)
| Reseed                    (* gen.reseed()             : same seed, stream restarts
                               (RandomReader.__init__, _reset_iter_state, __iter__) *)
| Draw (k : nat)            (* gen(k)                   : direct call / one __next__ *)
| Probe (k : nat)           (* reader.get_probe(k)      : reseed(); gen(k) *)
| Pass (n cs : nat).        (* for chunk in reader      : reseed(); gen(s) for s in sizes *)
Arguments op : clear implicits.

Section Generator.
  Context {seed sample : Type}.
  Context (stream : seed -> nat -> sample).   (* numpy PRNG: seed |-> infinite sample stream *)
  Context (width : nat).                      (* vectors per call: 2 (x,y) or 3 (x,y,idx) *)

  Record state := mkState { st_seed : seed; st_pos : nat }.
  Definition fresh (s : seed) : state := mkState s 0.     (* RandomsBase.__init__ -> reseed(seed) *)

  (* one call: vector v (v = 0 .. width-1) is the block of k consecutive samples
     starting at pos + v*k *)
  Record chunk := mkChunk { ch_size : nat; ch_vecs : list (list sample) }.
  Definition draw_vec (s : seed) (p k : nat) : list sample := map (stream s) (seq p k).
  Definition draw (st : state) (k : nat) : state * chunk :=
    (mkState (st_seed st) (st_pos st + width * k),
     mkChunk k (map (fun v => draw_vec (st_seed st) (st_pos st + v * k) k) (seq 0 width))).

  Definition reseed (st : state) : state := mkState (st_seed st) 0.

  Fixpoint draws (st : state) (sizes : list nat) : state * list chunk :=
    match sizes with
    | [] => (st, [])
    | k :: r => let '(st1, c) := draw st k in
                let '(st2, cs) := draws st1 r in (st2, c :: cs)
    end.

  Definition step (o : op seed) (st : state) : state * list chunk :=
    match o with
    | SetSeed s => (fresh s, [])
    | Reseed => (reseed st, [])
    | Draw k => let '(st1, c) := draw st k in (st1, [c])
    | Probe k => let '(st1, c) := draw (reseed st) k in (st1, [c])
    | Pass n cs => draws (reseed st) (random_sizes n cs)
    end.

  (* run: final state and, per operation, the chunks it produced *)
  Fixpoint run (ops : list (op seed)) (st : state) : state * list (list chunk) :=
    match ops with
    | [] => (st, [])
    | o :: r => let '(st1, out) := step o st in
                let '(st2, outs) := run r st1 in (st2, out :: outs)
    end.

  Definition outputs_of_last (r : state * list (list chunk)) : list chunk := last (snd r) [].

  (* the seed in force after a history *)
  Fixpoint seed_after (ops : list (op seed)) (s : seed) : seed :=
    match ops with
    | [] => s
    | SetSeed s' :: r => seed_after r s'
    | _ :: r => seed_after r s
    end.

  (* the variant without re-seeding at the start of a pass (what the property forbids) *)
  Definition step_noreseed (o : op seed) (st : state) : state * list chunk :=
    match o with
    | Pass n cs => draws st (random_sizes n cs)
    | _ => step o st
    end.
  Fixpoint run_noreseed (ops : list (op seed)) (st : state) : state * list (list chunk) :=
    match ops with
    | [] => (st, [])
    | o :: r => let '(st1, out) := step_noreseed o st in
                let '(st2, outs) := run_noreseed r st1 in (st2, out :: outs)
    end.
End Generator.

(* ---------- the visible event trace of an operation list (independent of the PRNG) ---------- *)
Definition op_events {seed} (o : op seed) : list event :=
  match o with
  | SetSeed _ => [EReseed]
  | Reseed => [EReseed]
  | Draw k => [ECall k]
  | Probe k => [EReseed; ECall k]
  | Pass n cs => EReseed :: map ECall (random_sizes n cs)
  end.
Definition trace {seed} (ops : list (op seed)) : list event := concat (map op_events ops).

Definition calls (evs : list event) : list nat :=
  concat (map (fun e => match e with EReseed => [] | ECall k => [k] end) evs).

(* Catalog.from_random(cache, gen, n, chunksize=cs, [patch_num, probe_size=k]):
   RandomReader.__init__ reseeds; create_patch_centers calls get_probe(k) in mode "create";
   write_patches iterates the reader once *)
Definition from_random_ops {seed} (n cs : nat) (probe : option nat) : list (op seed) :=
  Reseed :: (match probe with Some k => [Probe k] | None => [] end) ++ [Pass n cs].

(* sizes of the generator calls of the last pass in an event log = everything after the last reseed *)
Fixpoint after_last_reseed (evs : list event) (acc : list nat) : list nat :=
  match evs with
  | [] => acc
  | EReseed :: r => after_last_reseed r []
  | ECall k :: r => after_last_reseed r (acc ++ [k])
  end.

(* consecutive reseed() calls are one reseed (iter(iter(reader)) reseeds twice) *)
Fixpoint collapse (evs : list event) : list event :=
  match evs with
  | EReseed :: ((EReseed :: _) as r) => collapse r
  | e :: r => e :: collapse r
  | [] => []
  end.

(* ---------- joint attribute draw (RandomsBase._draw_attributes) ---------- *)
(* ONE index vector idx; weights[idx], redshifts[idx] *)
Definition draw_attributes (weights redshifts : list Q) (idx : list nat) : list (Q * Q) :=
  map (fun j => (nth j weights 0%Q, nth j redshifts 0%Q)) idx.
(* the variant with two independent index vectors *)
Definition draw_attributes_indep (weights redshifts : list Q) (idx1 idx2 : list nat) : list (Q * Q) :=
  combine (map (fun j => nth j weights 0%Q) idx1) (map (fun j => nth j redshifts 0%Q) idx2).

(* records of one chunk: the third vector, mapped to indices below the data size m *)
Definition chunk_attributes {sample} (to_index : nat -> sample -> nat)
           (weights redshifts : list Q) (c : @chunk sample) : list (Q * Q) :=
  draw_attributes weights redshifts (map (to_index (length weights)) (nth 2 (ch_vecs c) [])).

(* ---------- correspondence checker ---------- *)
Definition event_eqb (a b : event) : bool :=
  match a, b with
  | EReseed, EReseed => true
  | ECall j, ECall k => j =? k
  | _, _ => false
  end.

Definition nsum (l : list nat) : nat := fold_right Nat.add 0 l.

Definition in_window (lo hi : Q) (xs : list Q) : bool := forallb (fun x => Qleb lo x && Qleb x hi) xs.

(* (w, z) is row j of the attribute table for one and the same j *)
Definition joint_ok (weights redshifts : list Q) (pairs : list (Q * Q)) : bool :=
  forallb (fun wz => existsb (fun j => Qeqb (fst wz) (nth j weights 0%Q) && Qeqb (snd wz) (nth j redshifts 0%Q))
                             (seq 0 (Nat.min (length weights) (length redshifts)))) pairs.

(* one observed Catalog.from_random (or direct call when cs = 0 is never used: direct calls are
   encoded as n = cs, one chunk).
   flags: 0 model agrees: the event log of the observed creation = trace (from_random_ops n cs probe)
            up to repeated reseeds, and the sizes of the generator calls of the pass = random_sizes n cs
          1 size: number of stored records = n
          2 window: every stored ra in [ra0, ra1], dec in [dec0, dec1] (radian, exact)
          3 joint draw: every stored (w, z) is one row of (weights, redshifts)
          4 reproducible: records equal, bit for bit, those of a fresh generator with the seed
          5 another seed gives other points
          6 model agrees on the history: the event log of the earlier use = trace hist (up to
            repeated reseeds) *)
(* earlier use of the generator, as the harness drives it through the public API:
   a reader that is iterated for j chunks only = reader construction (reseed), iter (reseed),
   j calls *)
Definition partial_pass {seed} (n cs j : nat) : list (op seed) :=
  Reseed :: Reseed :: map Draw (firstn j (random_sizes n cs)).
Definition history_agree (ops : list (op unit)) (evs : list event) : bool :=
  list_eqb event_eqb (collapse evs) (collapse (trace ops)).

Definition c16_case (hist : list (op unit)) (hist_evs : list event)
           (n cs : nat) (probe : option nat) (evs : list event) (nstored : nat)
           (ra0 ra1 dec0 dec1 : Q) (ras decs : list Q)
           (weights redshifts : list Q) (pairs : list (Q * Q))
           (repro diffseed : bool) : nat :=
  let pass := after_last_reseed evs [] in
  code [ list_eqb event_eqb (collapse evs) (collapse (trace (@from_random_ops unit n cs probe)))
           && c16_sizes_agree n cs pass;
         (nstored =? n) && (length ras =? n) && (length decs =? n);
         in_window ra0 ra1 ras && in_window dec0 dec1 decs;
         joint_ok weights redshifts pairs;
         repro;
         diffseed;
         history_agree hist hist_evs ].

(* a direct call gen(k) after any history: exactly k records, in the window, joint attributes *)
Definition c16_direct (k nout : nat) (ra0 ra1 dec0 dec1 : Q) (ras decs : list Q)
           (weights redshifts : list Q) (pairs : list (Q * Q)) : nat :=
  code [ true;
         (nout =? k) && (length ras =? k) && (length decs =? k);
         in_window ra0 ra1 ras && in_window dec0 dec1 decs;
         joint_ok weights redshifts pairs ].


(* ---------- attribute tables with arbitrary float64 content ---------- *)
(* The value of a stored float64: a rational, +inf, -inf or NaN.  NaN is ONE value here (a row
   (NaN, z) of the samples IS a row: the float comparison NaN <> NaN must not hide it); the two
   zeros are the same value.  The bit pattern (a Z below 2^64) is the finer observable used for
   the tie with the model only. *)
Inductive fval := FFin (q : Q) | FPInf | FNInf | FNaN.
Definition fval_eqb (a b : fval) : bool :=
  match a, b with
  | FFin p, FFin q => Qeqb p q
  | FPInf, FPInf => true
  | FNInf, FNInf => true
  | FNaN, FNaN => true
  | _, _ => false
  end.
Definition fval_same (a b : fval) : Prop :=
  match a, b with
  | FFin p, FFin q => (p == q)%Q
  | FPInf, FPInf => True
  | FNInf, FNInf => True
  | FNaN, FNaN => True
  | _, _ => False
  end.
Definition fval_finite (a : fval) : bool := match a with FFin _ => true | _ => false end.

Section AttrTable.
  Context {A : Type} (d : A).
  (* RandomsBase._draw_attributes over any value type: ONE index vector selects both columns *)
  Definition draw_attributes_g (ws zs : list A) (idx : list nat) : list (A * A) :=
    map (fun j => (nth j ws d, nth j zs d)) idx.

  (* a preparation of the sample table before drawing (RandomsBase.__init__).  The code under
     test keeps the table as it is; any preparation that only selects whole ROWS is harmless
     (prepare_joint); one that treats the two columns separately is not (prepare_indep) *)
  Definition prepare_indep (keep : A -> bool) (ws zs : list A) : list A * list A :=
    (filter keep ws, filter keep zs).
  Definition prepare_joint (keep : A -> bool) (ws zs : list A) : list A * list A :=
    List.split (filter (fun wz => keep (fst wz) && keep (snd wz)) (combine ws zs)).

  Context (eqb : A -> A -> bool).
  Definition pair_eqb (a b : A * A) : bool := eqb (fst a) (fst b) && eqb (snd a) (snd b).
  (* (w, z) is row j of the table for one and the same j *)
  Definition joint_ok_g (ws zs : list A) (pairs : list (A * A)) : bool :=
    forallb (fun wz => existsb (fun j => eqb (fst wz) (nth j ws d) && eqb (snd wz) (nth j zs d))
                               (seq 0 (Nat.min (length ws) (length zs)))) pairs.
End AttrTable.

(* the index twin: the same generator (seed, window, data size m) over the table whose row j is
   (j, j) shows the index vector itself *)
Definition twin_attributes (m : nat) (idx : list nat) : list (nat * nat) :=
  draw_attributes_g 0 (seq 0 m) (seq 0 m) idx.

(* one observed call gen(k) / one stored patch of Catalog.from_random over an arbitrary table
   (ws, zs : the supplied samples widened to float64, as values and as bit patterns; a missing
   column is the constant 0), next to its index twin.
   flags: 0 model agrees: the coordinates equal those of the twin bit for bit, the twin's indices
            are below m, and the stored pairs are, bit for bit and in order, rows twin[i] of the table
          1 size: k records
          2 window
          3 joint draw: every stored (w, z) is one row of the supplied samples (as values; NaN = NaN)
          4 reproducible: same bits as a fresh generator with the same seed and table *)
Definition c16_attr_case (k nout m : nat) (ra0 ra1 dec0 dec1 : Q) (ras decs : list Q)
           (ws zs : list fval) (wbits zbits : list Z) (twin : list nat) (coords_same : bool)
           (pairs : list (fval * fval)) (pbits : list (Z * Z)) (repro : bool) : nat :=
  code [ coords_same && forallb (fun j => j <? m) twin
           && (length ws =? m) && (length zs =? m) && (length wbits =? m) && (length zbits =? m)
           && list_eqb (pair_eqb Z.eqb) pbits (draw_attributes_g 0%Z wbits zbits twin);
         (nout =? k) && (length ras =? k) && (length decs =? k) && (length pairs =? k);
         in_window ra0 ra1 ras && in_window dec0 dec1 decs;
         joint_ok_g (FFin 0) fval_eqb ws zs pairs;
         repro ].


(* ---------- several generator objects alive at once ---------- *)
(* A generator is a VALUE: what it was given at construction (does it draw weights, does it draw
   redshifts) and its own PRNG state.  A world is the list of the objects constructed so far; a
   schedule constructs further objects and applies operations to any of them, in any order. *)
Definition cfg_width (hw hz : bool) : nat := if hw || hz then 3 else 2.

Fixpoint set_nth {A} (i : nat) (x : A) (l : list A) : list A :=
  match l, i with
  | [], _ => []
  | _ :: r, O => x :: r
  | y :: r, S i' => y :: set_nth i' x r
  end.

Section World.
  Context {seed sample : Type}.
  Context (stream : seed -> nat -> sample).

  Record gen := mkGen { g_hasw : bool; g_hasz : bool; g_state : @state seed }.
  Definition g_width (g : gen) : nat := cfg_width (g_hasw g) (g_hasz g).

  Inductive wop :=
  | WNew (hw hz : bool) (s : seed)      (* BoxRandoms(..., weights = ?, redshifts = ?, seed = s) *)
  | WOp (i : nat) (o : op seed).        (* operation o on object number i *)

  Definition wstep (a : wop) (w : list gen) : list gen * option (nat * list (@chunk sample)) :=
    match a with
    | WNew hw hz s => (w ++ [mkGen hw hz (fresh s)], None)
    | WOp i o =>
        match nth_error w i with
        | None => (w, None)
        | Some g => let '(st1, out) := step stream (g_width g) o (g_state g) in
                    (set_nth i (mkGen (g_hasw g) (g_hasz g) st1) w, Some (i, out))
        end
    end.

  Fixpoint wrun (sched : list wop) (w : list gen) : list gen * list (nat * list (@chunk sample)) :=
    match sched with
    | [] => (w, [])
    | a :: r => let '(w1, out) := wstep a w in
                let '(w2, outs) := wrun r w1 in
                (w2, match out with Some x => x :: outs | None => outs end)
    end.

  (* what object i sees of a schedule, and what it produced *)
  Definition project (i : nat) (sched : list wop) : list (op seed) :=
    flat_map (fun a => match a with WOp j o => if j =? i then [o] else [] | WNew _ _ _ => [] end) sched.
  Definition outputs_of (i : nat) (outs : list (nat * list (@chunk sample))) : list (list chunk) :=
    flat_map (fun x => if fst x =? i then [snd x] else []) outs.

  (* the variant in which the attribute flags live in ONE place shared by all objects (set by every
     constructor): each call has the width of the object constructed last *)
  Definition wstep_shared (a : wop) (cur : bool * bool) (w : list gen)
    : (bool * bool) * list gen * option (nat * list (@chunk sample)) :=
    match a with
    | WNew hw hz s => ((hw, hz), w ++ [mkGen hw hz (fresh s)], None)
    | WOp i o =>
        match nth_error w i with
        | None => (cur, w, None)
        | Some g => let '(st1, out) := step stream (cfg_width (fst cur) (snd cur)) o (g_state g) in
                    (cur, set_nth i (mkGen (g_hasw g) (g_hasz g) st1) w, Some (i, out))
        end
    end.
  Fixpoint wrun_shared (sched : list wop) (cur : bool * bool) (w : list gen)
    : list gen * list (nat * list (@chunk sample)) :=
    match sched with
    | [] => (w, [])
    | a :: r => let '(cur1, w1, out) := wstep_shared a cur w in
                let '(w2, outs) := wrun_shared r cur1 w1 in
                (w2, match out with Some x => x :: outs | None => outs end)
    end.
End World.
Arguments gen : clear implicits.
Arguments wop : clear implicits.

(* ---------- correspondence checker for one object of a case with several objects ---------- *)
(* one group of operations on the object together with what was observed of it: the number of
   records, whether the records carry a weights / a redshifts field, and whether they equal, bit
   for bit, what the same generator gives when it is the only object *)
Record mobs := MO { mo_ops : list (op unit); mo_n : nat; mo_w : bool; mo_z : bool; mo_same : bool }.
(* the records a group of operations hands to its caller: the calls after its last reseed (a direct
   call, the probe, the pass; for Catalog.from_random the pass, not the k-means probe before it) *)
Definition op_total (ops : list (op unit)) : nat := nsum (after_last_reseed (trace ops) []).

(* flags: 0 model agrees: the event log of THIS object, in the company of the others and alone,
            is the trace of its own operations (up to repeated reseeds)
          1 size: every group produced exactly the requested number of records
          2 window
          3 joint draw: every (w, z) is one row of the samples supplied to THIS object
          4 independent / reproducible: every group equals that of the object used alone
          5 attributes attached: the records carry weights / redshifts iff this object was given them *)
Definition c16_multi_gen (hw hz : bool) (obs : list mobs) (evs evs_solo : list event)
           (ra0 ra1 dec0 dec1 : Q) (ras decs : list Q)
           (weights redshifts : list Q) (pairs : list (Q * Q)) : nat :=
  let ops := concat (map mo_ops obs) in
  let total := nsum (map mo_n obs) in
  code [ history_agree ops evs && history_agree ops evs_solo;
         forallb (fun o => mo_n o =? op_total (mo_ops o)) obs && (length ras =? total) && (length decs =? total);
         in_window ra0 ra1 ras && in_window dec0 dec1 decs;
         joint_ok weights redshifts pairs;
         forallb mo_same obs;
         forallb (fun o => (op_total (mo_ops o) =? 0) || (Bool.eqb (mo_w o) hw && Bool.eqb (mo_z o) hz)) obs
           && (length pairs =? if hw || hz then total else 0) ].

(* ---------- observers: code that runs on behalf of logging / progress / diagnostics ---------- *)
(* The ambient state of the process (log levels and handlers, progress indicators, warnings
   filters, environment variables, interpreter switches) decides whether OBSERVERS run inside the
   operations of a generator: code that shows something to the user.  The property says the records
   are a function of (parameters, seed) only, so a pass must not depend on which observers run.
   What an observer may do to the generator it looks at: *)
Inductive obs :=
| OSilent                   (* builds its message from sizes / names / the repr of the arguments only *)
| OPeek (k : nat)           (* shows k records drawn from a COPY (or saves and restores the PRNG state) *)
| OPreview (k : nat)        (* gen(k) on the live generator *)
| OProbe (k : nat)          (* reader.get_probe(k) : reseed(); gen(k) *)
| ORewind.                  (* gen.reseed() *)

(* the records an observer consumes from the live stream *)
Definition advance (o : obs) : nat :=
  match o with OPreview k => k | OProbe k => k | _ => 0 end.
(* what the logging subclass of the harness sees of an observer (a copy is another object) *)
Definition obs_events (o : obs) : list event :=
  match o with
  | OSilent => [] | OPeek _ => []
  | OPreview k => [ECall k]
  | OProbe k => [EReseed; ECall k]
  | ORewind => [EReseed]
  end.
(* observers that leave every state as it is *)
Definition transparent (o : obs) : bool :=
  match o with OSilent => true | OPeek _ => true | _ => false end.

Section Observers.
  Context {seed sample : Type}.
  Context (stream : seed -> nat -> sample).
  Context (width : nat).

  (* state left behind, and what is shown *)
  Definition observe (o : obs) (st : @state seed) : @state seed * list (@chunk sample) :=
    match o with
    | OSilent => (st, [])
    | OPeek k => (st, [snd (draw stream width st k)])
    | OPreview k => let '(st1, c) := draw stream width st k in (st1, [c])
    | OProbe k => let '(st1, c) := draw stream width (reseed st) k in (st1, [c])
    | ORewind => (reseed st, [])
    end.
  Definition observe_all (os : list obs) (st : @state seed) : @state seed :=
    fold_left (fun s o => fst (observe o s)) os st.

  (* the hooks of one pass: observers between the re-seed and the first chunk, and after every chunk *)
  Record hooks := mkHooks { h_start : list obs; h_each : list obs }.

  Fixpoint draws_obs (each : list obs) (st : @state seed) (sizes : list nat) : @state seed * list (@chunk sample) :=
    match sizes with
    | [] => (st, [])
    | k :: r => let '(st1, c) := draw stream width st k in
                let '(st2, cs) := draws_obs each (observe_all each st1) r in (st2, c :: cs)
    end.

  (* one pass of a reader (for chunk in reader / Catalog.from_random); [on] = the ambient state
     switches the observers on *)
  Definition pass_obs (on : bool) (h : hooks) (n cs : nat) (st : @state seed) : @state seed * list (@chunk sample) :=
    if on then draws_obs (h_each h) (observe_all (h_start h) (reseed st)) (random_sizes n cs)
    else draws stream width (reseed st) (random_sizes n cs).

  (* the same with an observer that is an arbitrary function on the generator state *)
  Definition pass_with (f : @state seed -> @state seed) (n cs : nat) (st : @state seed) : list (@chunk sample) :=
    snd (draws stream width (f (reseed st)) (random_sizes n cs)).
End Observers.

(* the event log of a pass with observers at its start *)
Definition start_events (os : list obs) : list event := concat (map obs_events os).
Definition pass_obs_events (os : list obs) (n cs : nat) : list event :=
  EReseed :: start_events os ++ map ECall (random_sizes n cs).

(* ---------- correspondence checker: one route under one ambient setting ---------- *)
(* the route by which the records are obtained from a generator with the seed in force *)
Inductive aroute :=
| APass (n cs : nat)        (* chunks of a RandomReader / the patches of Catalog.from_random *)
| ACalls (ks : list nat)    (* direct calls gen(k) / generate_dataframe(k) on a fresh generator *)
| AProbe (k : nat).         (* reader.get_probe(k) *)
Definition aroute_sizes (r : aroute) : list nat :=
  match r with APass n cs => random_sizes n cs | ACalls ks => ks | AProbe k => [k] end.
Definition aroute_total (r : aroute) : nat := nsum (aroute_sizes r).

Definition qpair_eqb (a b : Q * Q) : bool := Qeqb (fst a) (fst b) && Qeqb (snd a) (snd b).

(* evs : the event log of the generator object under this setting; ras / decs / pairs : the records;
   ref_* : the reference stream of the model (the PRNG of the seed, position 0, call sizes of the
   route), computed without the library; bits_same : the same comparison on the bit patterns;
   same_neutral : the records equal, bit for bit, those of the same route under the neutral setting.
   flags: 0 model agrees: the calls after the last reseed are those of the route (whatever observers
            ran before that reseed), and the reference stream itself has the size, lies in the
            window and consists of rows
          1 size   2 window   3 joint draw
          4 the records are those of the reference stream
          5 the records are those of the neutral setting *)
Definition amb_tie (r : aroute) (evs : list event) (ra0 ra1 dec0 dec1 : Q)
           (weights redshifts : list Q) (ref_ras ref_decs : list Q) (ref_pairs : list (Q * Q)) : bool :=
  nlist_eqb (aroute_sizes r) (after_last_reseed evs [])
  && ((length ref_ras =? aroute_total r) && (length ref_decs =? aroute_total r)
      && in_window ra0 ra1 ref_ras && in_window dec0 dec1 ref_decs
      && joint_ok weights redshifts ref_pairs).
Definition amb_size (r : aroute) (nout : nat) (ras decs : list Q) : bool :=
  (nout =? aroute_total r) && ((length ras =? aroute_total r) && (length decs =? aroute_total r)).
Definition amb_same (ras decs : list Q) (pairs : list (Q * Q))
           (ref_ras ref_decs : list Q) (ref_pairs : list (Q * Q)) (bits_same : bool) : bool :=
  bits_same && (list_eqb Qeqb ras ref_ras && (list_eqb Qeqb decs ref_decs && list_eqb qpair_eqb pairs ref_pairs)).

Definition c16_ambient_case (r : aroute) (evs : list event) (nout : nat)
           (ra0 ra1 dec0 dec1 : Q) (ras decs : list Q)
           (weights redshifts : list Q) (pairs : list (Q * Q))
           (ref_ras ref_decs : list Q) (ref_pairs : list (Q * Q))
           (bits_same same_neutral : bool) : nat :=
  code [ amb_tie r evs ra0 ra1 dec0 dec1 weights redshifts ref_ras ref_decs ref_pairs;
         amb_size r nout ras decs;
         in_window ra0 ra1 ras && in_window dec0 dec1 decs;
         joint_ok weights redshifts pairs;
         amb_same ras decs pairs ref_ras ref_decs ref_pairs bits_same;
         same_neutral ].
