(* C15 / C11 — the list of scale ranges of a configuration.  The i-th measured correlation function belongs to the i-th
   listed range: the configuration keeps the ranges as given, in order and number (a range may be listed twice).  A variant
   "canonicalises" the list the way np.unique(axis=...) does: sorted lexicographically, repeats dropped. *)
From Coq Require Import List Arith Bool.
Import ListNotations.

Definition range := (nat * nat)%type.
Definition range_ltb (a b : range) : bool := (fst a <? fst b) || ((fst a =? fst b) && (snd a <? snd b)).
Definition range_eqb (a b : range) : bool := (fst a =? fst b) && (snd a =? snd b).

Definition keep (l : list range) : list range := l.

Fixpoint insert_unique (x : range) (l : list range) : list range :=
  match l with
  | [] => [x]
  | y :: r => if range_eqb x y then l else if range_ltb x y then x :: l else y :: insert_unique x r
  end.
Definition unique_sorted (l : list range) : list range := fold_right insert_unique [] l.
