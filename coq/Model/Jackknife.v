(* Model of the jackknife machinery (C03):
     correlation/paircounts.py : BinwisePatchwiseArray.sample_patch_sum,
                                 PatchedSumWeights.get_array,
                                 NormalisedCounts.sample_patch_sum
     correlation/corrdata.py   : cov_from_samples, SampledData.covariance / .error
     redshifts.py              : resample_jackknife (literal index model, current form and
                                 repaired form), HistData.from_catalog (sums over patches)
   together with the specification ("the statistic recomputed with patch k deleted from all
   arrays") and the correspondence checkers c03_*_case.  No proofs in this file. *)
From Verif Require Import Prelude.
Open Scope Q_scope.

(* ------------------------------------------------------------------ helpers *)
Fixpoint map2 {A B C} (f : A -> B -> C) (l1 : list A) (l2 : list B) : list C :=
  match l1, l2 with
  | a :: l1', b :: l2' => f a b :: map2 f l1' l2'
  | _, _ => []
  end.

Fixpoint mapi_from {A B} (s : nat) (f : nat -> A -> B) (l : list A) : list B :=
  match l with
  | [] => []
  | x :: xs => f s x :: mapi_from (S s) f xs
  end.

Definition mat := list (list Q).
Definition mapi2 (g : nat -> nat -> Q -> Q) (M : mat) : mat :=
  mapi_from 0 (fun i r => mapi_from 0 (g i) r) M.

Definition qn (n : nat) : Q := inject_Z (Z.of_nat n).

(* ------------------------------------------------ one redshift bin: patch x patch matrix *)
Definition rowsum (M : mat) (k : nat) : Q := qsum (nth k M []).
Definition colsum (M : mat) (k : nat) : Q := qsum (map (fun r => nth k r 0) M).
Definition diag (M : mat) (k : nat) : Q := nth k (nth k M []) 0.
Definition total (M : mat) : Q := qsum (map qsum M).

(* sample_patch_sum:  samples = sum_tiled - row_sum - col_sum + diag
   (the code's `row_sum` = einsum("bij->jb") sums over the FIRST patch index, i.e. it is
   column k; its `col_sum` = einsum("bij->ib") is row k) *)
Definition sample (M : mat) (k : nat) : Q := total M - colsum M k - rowsum M k + diag M k.

(* the specification: the total recomputed with patch k removed from both catalogs *)
Definition del (k : nat) (M : mat) : mat := map (remove_nth k) (remove_nth k M).
Definition loo (M : mat) (k : nat) : Q := total (del k M).

(* arrays of shape (bins, patches, patches) are [list mat]; results are data[b] and
   samples[k][b] *)
Definition sps_data (A : list mat) : list Q := map total A.
Definition sps_samples (N : nat) (A : list mat) : list (list Q) :=
  map (fun k => map (fun M => sample M k) A) (seq 0 N).
Definition loo_samples (N : nat) (A : list mat) : list (list Q) :=
  map (fun k => map (fun M => loo M k) A) (seq 0 N).

(* ------------------------------------------------ PatchedSumWeights.get_array (one bin) *)
Definition outer (u v : list Q) : mat := map (fun a => map (fun b => a * b) v) u.
Definition triu_g (i j : nat) (x : Q) : Q := if (j <? i)%nat then 0 else x.
Definition half_g (i j : nat) (x : Q) : Q := if (i =? j)%nat then x * (1 # 2) else x.
Definition triu (M : mat) : mat := mapi2 triu_g M.                 (* np.triu *)
Definition halve_diag (M : mat) : mat := mapi2 half_g M.           (* einsum("bii->bi")[:] *= 0.5 *)
Definition weights_array (auto : bool) (u v : list Q) : mat :=
  if auto then halve_diag (triu (outer u v)) else outer u v.

(* specification of the autocorrelation normalisation:
   sum_{i<j} u_i v_j + 1/2 sum_i u_i v_i   (lists of equal length) *)
Fixpoint upper_half_sum (u v : list Q) : Q :=
  match u, v with
  | a :: u', b :: v' => (1 # 2) * (a * b) + a * qsum v' + upper_half_sum u' v'
  | _, _ => 0
  end.

(* the normalisation of one bin as the property states it *)
Definition norm_denominator (auto : bool) (u v : list Q) : Q :=
  if auto then upper_half_sum u v else qsum u * qsum v.

(* U, V : shape (bins, patches) *)
Definition weights_arrays (auto : bool) (U V : list (list Q)) : list mat :=
  map2 (weights_array auto) U V.

(* ------------------------------------------------ NormalisedCounts.sample_patch_sum *)
Definition nc_data (auto : bool) (C : list mat) (U V : list (list Q)) : list Q :=
  map2 Qdiv (sps_data C) (sps_data (weights_arrays auto U V)).
Definition nc_samples (N : nat) (auto : bool) (C : list mat) (U V : list (list Q)) : list (list Q) :=
  map2 (map2 Qdiv) (sps_samples N C) (sps_samples N (weights_arrays auto U V)).
(* denominators, to know where the quotient is defined *)
Definition nc_den_data (auto : bool) (U V : list (list Q)) : list Q :=
  sps_data (weights_arrays auto U V).
Definition nc_den_samples (N : nat) (auto : bool) (U V : list (list Q)) : list (list Q) :=
  sps_samples N (weights_arrays auto U V).

(* the specification: recount with patch k deleted from the counts and from both weight vectors *)
Definition nc_stat (auto : bool) (M : mat) (u v : list Q) : Q := total M / norm_denominator auto u v.
Definition nc_recount (N : nat) (auto : bool) (C : list mat) (U V : list (list Q)) : list (list Q) :=
  map (fun k => map2 (fun M uv => nc_stat auto (del k M) (remove_nth k (fst uv)) (remove_nth k (snd uv)))
                     C (combine U V)) (seq 0 N).
Definition nc_recount_den (N : nat) (auto : bool) (U V : list (list Q)) : list (list Q) :=
  map (fun k => map (fun uv => norm_denominator auto (remove_nth k (fst uv)) (remove_nth k (snd uv)))
                    (combine U V)) (seq 0 N).

(* ------------------------------------------------ covariance of jackknife samples *)
(* X : samples, shape (N samples, B bins) *)
Definition ncols (X : list (list Q)) : nat := match X with [] => 0%nat | r :: _ => length r end.
Definition col (X : list (list Q)) (i : nat) : list Q := map (fun r => nth i r 0) X.
Definition mean_col (X : list (list Q)) (i : nat) : Q := qsum (col X i) / qn (length X).
Definition dev (X : list (list Q)) (r : list Q) (i : nat) : Q := nth i r 0 - mean_col X i.
Definition dev_rows (X : list (list Q)) : list (list Q) :=
  map (fun r => map (fun i => dev X r i) (seq 0 (ncols X))) X.
Definition sumprod (X : list (list Q)) (i j : nat) : Q :=
  qsum (map (fun r => dev X r i * dev X r j) X).
(* the code: np.cov(samples, rowvar=False, ddof=0) * (num_samples - 1)
   = (X^T X) * (1 / N) * (N - 1) on mean-subtracted X *)
Definition cov_code (X : list (list Q)) (i j : nat) : Q :=
  sumprod X i j * (1 / qn (length X)) * qn (length X - 1).
(* the specification: (N-1)/N * sum_k (x_k - mean)_i (x_k - mean)_j *)
Definition cov_spec (X : list (list Q)) (i j : nat) : Q :=
  (qn (length X - 1) / qn (length X)) * sumprod X i j.
Definition cov_matrix (X : list (list Q)) : list (list Q) :=
  map (fun i => map (fun j => cov_code X i j) (seq 0 (ncols X))) (seq 0 (ncols X)).
(* v^T C v for a matrix given as a function *)
Definition quad (B : nat) (v : list Q) (C : nat -> nat -> Q) : Q :=
  qsum (map (fun i => qsum (map (fun j => nth i v 0 * C i j * nth j v 0) (seq 0 B))) (seq 0 B)).
Definition dotv (B : nat) (v : list Q) (d : nat -> Q) : Q :=
  qsum (map (fun i => nth i v 0 * d i) (seq 0 B)).

(* the same value evaluated with fractions reduced at every step (the unreduced terms of
   [cov_code] on 53-bit dyadic inputs grow to thousands of digits); Proofs: cov_eval == cov_code *)
Definition mean_r (X : list (list Q)) (i : nat) : Q := Qred (qsumr (col X i) / qn (length X)).
Definition dev_r (X : list (list Q)) (r : list Q) (i : nat) : Q := Qred (nth i r 0 - mean_r X i).
Definition sumprod_r (X : list (list Q)) (i j : nat) : Q :=
  qsumr (map (fun r => Qred (dev_r X r i * dev_r X r j)) X).
Definition cov_eval (X : list (list Q)) (i j : nat) : Q :=
  Qred (sumprod_r X i j * (1 / qn (length X)) * qn (length X - 1)).

(* absolute comparison against a forward error scale:  |a - b| <= tol * scale *)
Definition Qnear (tol a b scale : Q) : bool := Qleb (Qabs (a - b)) (tol * scale).
Definition tol44 : Q := 1 # 17592186044416.   (* 2^-44 *)
Definition cov_scale (X : list (list Q)) (i j : nat) : Q :=
  let mi := Qabs (mean_r X i) in let mj := Qabs (mean_r X j) in
  qsumr (map (fun r => Qred ((Qabs (nth i r 0) + mi) * (Qabs (nth j r 0) + mj))) X).

(* ------------------------------------------------ resample_jackknife, literally on index lists *)
Definition tile {A} (l : list A) (n : nat) : list A := concat (repeat l n).        (* np.tile *)
Fixpoint delete_from {A} (s : nat) (ps : list nat) (l : list A) : list A :=
  match l with
  | [] => []
  | x :: xs => if existsb (Nat.eqb s) ps then delete_from (S s) ps xs
               else x :: delete_from (S s) ps xs
  end.
Definition np_delete {A} (l : list A) (ps : list nat) : list A := delete_from 0 ps l.   (* np.delete(arr, idx) *)
Definition reshape_rows {A} (n : nat) (l : list A) : list (list A) :=                  (* .reshape((n, -1)) *)
  let w := (length l / n)%nat in map (fun k => firstn w (skipn (k * w) l)) (seq 0 n).

(* current code:   idx_range = arange(N); full = tile(idx_range, N);
                   idx_jackknife = delete(full, idx_range).reshape((N, -1)) *)
Definition idx_jackknife_cur (N : nat) : list (list nat) :=
  reshape_rows N (np_delete (tile (seq 0 N) N) (seq 0 N)).
(* repaired form:  delete(full, idx_range * (N + 1)) : entry k of the k-th repetition *)
Definition idx_jackknife_fix (N : nat) : list (list nat) :=
  reshape_rows N (np_delete (tile (seq 0 N) N) (map (fun k => k * (N + 1))%nat (seq 0 N))).

(* observations[idx_jackknife].sum(axis=1);  obs : shape (patches, bins) *)
Definition vsum (B : nat) (rows : list (list Q)) : list Q :=
  map (fun b => qsum (map (fun r => nth b r 0) rows)) (seq 0 B).
Definition take_rows (obs : list (list Q)) (idx : list nat) : list (list Q) :=
  map (fun i => nth i obs []) idx.
Definition resample (idx : list (list nat)) (B : nat) (obs : list (list Q)) : list (list Q) :=
  map (fun row => vsum B (take_rows obs row)) idx.
Definition hist_samples_cur (B : nat) (obs : list (list Q)) : list (list Q) :=
  resample (idx_jackknife_cur (length obs)) B obs.
Definition hist_samples_fix (B : nat) (obs : list (list Q)) : list (list Q) :=
  resample (idx_jackknife_fix (length obs)) B obs.
(* HistData.from_catalog: data = counts.sum(axis=0) *)
Definition hist_data (B : nat) (obs : list (list Q)) : list Q := vsum B obs.
(* specification: sample k = histogram of the catalog without patch k *)
Definition hist_loo (B : nat) (obs : list (list Q)) : list (list Q) :=
  map (fun k => vsum B (remove_nth k obs)) (seq 0 (length obs)).

(* ------------------------------------------------ comparison helpers on optional values
   (None = the implementation produced a non-finite float) *)
Definition oq := option Q.
Definition all_some (l : list oq) : bool := forallb (fun x => match x with Some _ => true | None => false end) l.
Definition unsome (l : list oq) : list Q := map (fun x => match x with Some q => q | None => 0 end) l.

(* where the exact quotient is defined (den <> 0) the implementation must be finite and close;
   elsewhere nothing is required *)
Definition quot_ok (tol : Q) (den model : Q) (impl : oq) : bool :=
  if Qeqb den 0 then true
  else match impl with Some x => Qclose tol x model | None => false end.
Fixpoint forallb3 {A B C} (f : A -> B -> C -> bool) (l1 : list A) (l2 : list B) (l3 : list C) : bool :=
  match l1, l2, l3 with
  | [], [], [] => true
  | a :: l1', b :: l2', c :: l3' => f a b c && forallb3 f l1' l2' l3'
  | _, _, _ => false
  end.
Definition quot_list_ok tol := forallb3 (quot_ok tol).
Definition quot_mat_ok tol := forallb3 (quot_list_ok tol).

(* ------------------------------------------------ checkers *)

(* raw containers: PatchedCounts / PatchedSumWeights .sample_patch_sum(); values are sums and
   products of small dyadic numbers, so float64 is exact and equality is exact.
   kind = None: a counts array A is given; kind = Some auto: weight vectors U V are given *)
Definition c03_sps_case (N : nat) (A : list mat) (impl_data : list Q) (impl_samples : list (list Q)) : nat :=
  code [ qlist_eqb (sps_data A) impl_data && qmat_eqb (sps_samples N A) impl_samples;
         qmat_eqb (loo_samples N A) impl_samples ].

Definition c03_weights_case (N : nat) (auto : bool) (U V : list (list Q))
           (impl_array : list mat) (impl_data : list Q) (impl_samples : list (list Q)) : nat :=
  let W := weights_arrays auto U V in
  code [ list_eqb qmat_eqb W impl_array && qlist_eqb (sps_data W) impl_data
           && qmat_eqb (sps_samples N W) impl_samples;
         (* spec: sample k = the normalisation recomputed without patch k *)
         qmat_eqb (nc_recount_den N auto U V) impl_samples;
         (* spec: data = product of total weights / half the squared total *)
         qlist_eqb (map2 (norm_denominator auto) U V) impl_data ].

(* NormalisedCounts.sample_patch_sum(): one division per entry *)
Definition c03_nc_case (N : nat) (auto : bool) (C : list mat) (U V : list (list Q))
           (impl_data : list oq) (impl_samples : list (list oq)) : nat :=
  code [ quot_list_ok tol48 (nc_den_data auto U V) (nc_data auto C U V) impl_data
           && quot_mat_ok tol48 (nc_den_samples N auto U V) (nc_samples N auto C U V) impl_samples;
         quot_mat_ok tol48 (nc_recount_den N auto U V) (nc_recount N auto C U V) impl_samples ].

(* covariance and error of a SampledData: X = the implementation's samples (all finite),
   probes = a few test vectors for positive semi-definiteness *)
Definition c03_cov_case (X : list (list Q)) (impl_cov : list (list Q)) (impl_err : list Q)
           (probes : list (list Q)) : nat :=
  let B := ncols X in
  let idx := seq 0 B in
  let entry i j := nth j (nth i impl_cov []) 0 in
  code [ (* the reported covariance is the delete-one jackknife covariance of these samples *)
         Nat.eqb (length impl_cov) B && forallb (fun r => Nat.eqb (length r) B) impl_cov
           && forallb (fun i => forallb (fun j =>
                Qnear tol44 (entry i j) (cov_eval X i j) (cov_scale X i j)) idx) idx;
         (* symmetric *)
         forallb (fun i => forallb (fun j =>
                Qnear tol44 (entry i j) (entry j i) (cov_scale X i j)) idx) idx;
         (* error^2 = diagonal, error >= 0 *)
         Nat.eqb (length impl_err) B
           && forallb (fun i => let e := nth i impl_err 0 in
                Qleb 0 e && Qclose (4 * tol48) (e * e) (entry i i)) idx;
         (* v^T C v >= 0 up to rounding on the probe vectors *)
         (let S := map (fun i => map (fun j => cov_scale X i j) idx) idx in
          let sc i j := nth j (nth i S []) 0 in
          forallb (fun v => Qleb (- (tol44 * quad B (map Qabs v) sc)) (quad B v entry)) probes) ].

(* HistData.from_catalog: obs = per-patch histograms computed by the harness, shape (N, B).
   flag0: the implementation agrees with the current index model or with the repaired one;
   flag1: sample k is the histogram without patch k (the property);
   flag2: data = sum over patches;
   flag3 (diagnostic): rows are the leave-one-out histograms in REVERSED patch order *)
Definition c03_hist_case (B : nat) (obs : list (list Q)) (impl_data : list Q)
           (impl_samples : list (list Q)) : nat :=
  code [ qmat_eqb (hist_samples_cur B obs) impl_samples || qmat_eqb (hist_samples_fix B obs) impl_samples;
         qmat_eqb (hist_loo B obs) impl_samples;
         qlist_eqb (hist_data B obs) impl_data;
         negb (qmat_eqb (rev (hist_loo B obs)) impl_samples) || qmat_eqb (hist_loo B obs) impl_samples ].

(* ------------------------------------------------ samples with undefined entries
   A jackknife sample can be undefined in a bin: 0/0 or x/0 when the bin is populated from a single
   patch and that patch is left out, the root of a negative number in the n(z) formula.  The
   implementation then holds a non-finite float (NaN, +inf, -inf), here [None].  The covariance is
   taken entry-wise: entry (i,j) is a function of columns i and j of the N samples only; it is
   defined when both columns are defined in ALL N samples and is then the delete-one covariance
   over ALL N samples, and it is undefined otherwise (IEEE: the mean of the column is not a
   number).  No sample is ever dropped. *)
Definition is_some (x : oq) : bool := match x with Some _ => true | None => false end.
Definition unsome1 (x : oq) : Q := match x with Some q => q | None => 0 end.
Definition ocol (X : list (list oq)) (i : nat) : list oq := map (fun r => nth i r None) X.
Definition col_defined (X : list (list oq)) (i : nat) : bool := forallb is_some (ocol X i).
(* undefined -> 0: a filler that the defined entries never read (Proofs: cov_code_columns) *)
Definition fill (X : list (list oq)) : list (list Q) := map (map unsome1) X.
Definition cov_opt (X : list (list oq)) (i j : nat) : option Q :=
  if col_defined X i && col_defined X j then Some (cov_eval (fill X) i j) else None.
Definition cov_opt0 (X : list (list oq)) (i j : nat) : Q := unsome1 (cov_opt X i j).
(* the alternative that the property excludes: estimate from the complete samples only *)
Definition row_defined (r : list oq) : bool := forallb is_some r.
Definition complete_rows (X : list (list oq)) : list (list oq) := filter row_defined X.
Definition cov_drop (X : list (list oq)) (i j : nat) : Q := cov_code (fill (complete_rows X)) i j.
(* a probe vector restricted to the defined bins *)
Definition mask_probe (X : list (list oq)) (v : list Q) : list Q :=
  mapi_from 0 (fun i x => if col_defined X i then x else 0) v.

(* covariance and error of a SampledData whose samples may hold non-finite values (X, N >= 2 rows);
   impl_cov / impl_err: None = a non-finite float.
   flag0: the reported entries are numbers exactly where the model's are (both bins defined in all
          samples) - the tie between model and implementation;
   flag1: for every pair of bins defined in all samples the reported entry is the delete-one
          jackknife covariance of ALL N samples (the property);
   flag2: symmetric on these pairs;  flag3: error^2 = diagonal, error >= 0 on the defined bins;
   flag4: v^T C v >= 0 for probe vectors supported on the defined bins *)
Definition c03_covopt_case (X : list (list oq)) (impl_cov : list (list oq)) (impl_err : list oq)
           (probes : list (list Q)) : nat :=
  let Xf := fill X in
  let B := ncols Xf in
  let idx := seq 0 B in
  let def := map (col_defined X) idx in
  let d i := nth i def false in
  let entry i j := nth j (nth i impl_cov []) None in
  let entry0 i j := unsome1 (entry i j) in
  let err i := nth i impl_err None in
  code [ Nat.eqb (length impl_cov) B && forallb (fun r => Nat.eqb (length r) B) impl_cov
           && Nat.eqb (length impl_err) B
           && forallb (fun i => Bool.eqb (is_some (err i)) (d i)
                && forallb (fun j => Bool.eqb (is_some (entry i j)) (d i && d j)) idx) idx;
         forallb (fun i => forallb (fun j =>
                if d i && d j
                then match entry i j with
                     | Some c => Qnear tol44 c (cov_eval Xf i j) (cov_scale Xf i j)
                     | None => false
                     end
                else true) idx) idx;
         forallb (fun i => forallb (fun j =>
                if d i && d j
                then Qnear tol44 (entry0 i j) (entry0 j i) (cov_scale Xf i j)
                else true) idx) idx;
         forallb (fun i =>
                if d i
                then match err i with
                     | Some e => Qleb 0 e && Qclose (4 * tol48) (e * e) (entry0 i i)
                     | None => false
                     end
                else true) idx;
         (let S := map (fun i => map (fun j => cov_scale Xf i j) idx) idx in
          let sc i j := nth j (nth i S []) 0 in
          forallb (fun v => let w := mask_probe X v in
                     Qleb (- (tol44 * quad B (map Qabs w) sc)) (quad B w entry0)) probes) ].

(* ------------------------------------------------ magnitudes
   Pair counts are sums of products of object weights (times a scale weight r^alpha), so their unit is
   arbitrary: catalogs with weights of 2^-30, counts multiplied by a constant (CorrFunc * c), scale
   weights.  The leave-one-out recount is homogeneous - counts times c give samples times c, weights
   times a and b give normalisations times a*b - and the normalised statistic depends on c/(a*b) only
   (Proofs: loo_scale, sample_scale, norm_denominator_scale, nc_stat_scale, nc_sample_weight_invariant).
   There is no absolute size below which a leave-one-out sum "is empty". *)
Definition vscale (c : Q) (l : list Q) : list Q := map (Qmult c) l.
Definition mscale (c : Q) (M : mat) : mat := map (vscale c) M.
(* one sample of NormalisedCounts.sample_patch_sum (one bin) *)
Definition nc_sample (auto : bool) (M : mat) (u v : list Q) (k : nat) : Q :=
  sample M k / sample (weights_array auto u v) k.
(* the variant that the property excludes: leave-one-out sums within eps of zero are taken for
   round-off residuals of an empty sample (np.isclose(x, 0.0): |x| <= atol) *)
Definition snap (eps x : Q) : Q := if Qleb (Qabs x) eps then 0 else x.
Definition sample_thr (eps : Q) (M : mat) (k : nat) : Q := snap eps (sample M k).
Definition nc_sample_thr (eps : Q) (auto : bool) (M : mat) (u v : list Q) (k : nat) : Q :=
  sample_thr eps M k / sample (weights_array auto u v) k.

(* the real pipeline: jackknife sample k of a measurement against the value of the measurement
   repeated on catalogs from which patch k was removed (both are floats of the implementation; sums
   taken in another order): where the repeated measurement is a number the sample must be one, within
   tol * (1 + |value|); where it is not (a zero denominator) nothing is required (the sample's
   total - row - column + diagonal may hold a rounding residual instead of an exact 0) *)
Definition near1 (tol : Q) (x y : oq) : bool :=
  match y with
  | None => true
  | Some q => match x with Some p => Qnear tol p q (1 + Qabs q) | None => false end
  end.
Fixpoint forallb2o (f : oq -> oq -> bool) (l1 l2 : list oq) : bool :=
  match l1, l2 with
  | [], [] => true
  | a :: l1', b :: l2' => f a b && forallb2o f l1' l2'
  | _, _ => false
  end.
Definition c03_rerun_case (tol : Q) (sample_k rerun : list oq) : nat :=
  code [ forallb2o (near1 tol) sample_k rerun ].

(* ------------------------------------------------ derived containers
   The container that is sampled is often not the one a measurement stored: patches are selected
   (.patches[I] with a list in any order, a reversed or stepped slice, a mask), bins are selected,
   containers are added, multiplied by a scalar, written to a file and read back - and only then
   sample_patch_sum() / CorrFunc.sample() / RedshiftData.from_corrfuncs() run.  The property speaks
   about the derived container: its k-th patch is the k-th SELECTED one (patch I[k] of the original),
   and sample k is the statistic of the selection with that patch left out, i.e. the statistic of
   the original data restricted to I without its k-th entry (Proofs: del_msel, loo_msel,
   sample_msel, remove_nth_vsel, nc_sample_sel_is_recount).  Counts and sums of weights must be
   selected by the SAME index list: nc_sample_sel_mixed_refuted. *)
Definition vsel (I : list nat) (u : list Q) : list Q := map (fun i => nth i u 0) I.
(* counts[:, I][:, :, I] of one bin: the sub-matrix, rows and columns in the order of I *)
Definition msel (I : list nat) (M : mat) : mat := map (fun i => vsel I (nth i M [])) I.
Definition madd (A B : mat) : mat := map2 (map2 Qplus) A B.
(* arr[J] along the bin axis *)
Definition bsel {A} (J : list nat) (l : list (list A)) : list (list A) := map (fun b => nth b l []) J.
(* the index list of a selection of a selection: (x.patches[I]).patches[J] = x.patches[I[J]] *)
Definition isel (I J : list nat) : list nat := map (fun j => nth j I 0%nat) J.

(* what a NormalisedCounts holds: counts (bins, N, N), sum_weights1 / 2 (bins, N) *)
Definition arrs := (list mat * list (list Q) * list (list Q))%type.
Inductive deriv :=
| D_patches (I : list nat)      (* .patches[item], item resolved to positions on the patch axis *)
| D_bins (J : list nat)         (* .bins[item] *)
| D_add (C' : list mat)         (* + a container with the same sums of weights: counts add *)
| D_mul (c : Q).                (* * scalar: counts only *)
Definition derive1 (d : deriv) (a : arrs) : arrs :=
  let '(C, U, V) := a in
  match d with
  | D_patches ps => (map (msel ps) C, map (vsel ps) U, map (vsel ps) V)
  | D_bins bs => (bsel bs C, bsel bs U, bsel bs V)
  | D_add C' => (map2 madd C C', U, V)
  | D_mul c => (map (mscale c) C, U, V)
  end.
Definition derive (ds : list deriv) (a : arrs) : arrs := fold_left (fun a d => derive1 d a) ds a.
(* number of patches of what is held (a raw container holds counts only or weights only: the other
   array is empty) *)
Definition arrs_np (a : arrs) : nat :=
  let '(C, U, _) := a in Nat.max (length (nth 0 U [])) (length (nth 0 C [])).

(* one bin of NormalisedCounts.patches[I].sample_patch_sum(), sample k *)
Definition nc_sample_sel (auto : bool) (I : list nat) (M : mat) (u v : list Q) (k : nat) : Q :=
  nc_sample auto (msel I M) (vsel I u) (vsel I v) k.
(* the statistic of the original data restricted to the selection without its k-th entry *)
Definition nc_stat_sel (auto : bool) (I : list nat) (M : mat) (u v : list Q) : Q :=
  nc_stat auto (msel I M) (vsel I u) (vsel I v).

(* the variant that the property excludes: the pair counts are selected by the patch ids in
   ascending order ("keeps autocorrelation counts upper triangular") while the sums of weights
   keep the caller's order.  Totals are unchanged (the same set of patches); leave-one-out counts
   drop patch sort(I)[k], the leave-one-out normalisation drops patch I[k]. *)
Fixpoint insert_nat (x : nat) (l : list nat) : list nat :=
  match l with
  | [] => [x]
  | y :: r => if (x <=? y)%nat then x :: l else y :: insert_nat x r
  end.
Definition sort_nat (l : list nat) : list nat := fold_right insert_nat [] l.
Definition nc_sample_sel_mixed (auto : bool) (I : list nat) (M : mat) (u v : list Q) (k : nat) : Q :=
  nc_sample auto (msel (sort_nat I) M) (vsel I u) (vsel I v) k.
(* every selection step in ascending order: what a container that normalises ALL its arrays holds *)
Definition sort_steps (ds : list deriv) : list deriv :=
  map (fun d => match d with D_patches ps => D_patches (sort_nat ps) | _ => d end) ds.

(* raw containers after a derivation: the existing checkers on the derived arrays.
   with_alt: bit 6 (64) is added to a non-zero code when the observed samples ARE those of the
   derivation with every patch selection taken in ascending order (a container that holds the
   selected patches in another order than the caller's, consistently) *)
Definition with_alt (c : nat) (alt : unit -> nat) : nat :=
  if Nat.eqb c 0 then 0%nat else if Nat.eqb (alt tt) 0 then (c + 64)%nat else c.
Definition c03_dsps_core (ds : list deriv) (A : list mat) (impl_data : list Q) (impl_samples : list (list Q)) : nat :=
  let a := derive ds (A, [], []) in
  let '(C, _, _) := a in c03_sps_case (arrs_np a) C impl_data impl_samples.
Definition c03_dsps_case ds A impl_data impl_samples : nat :=
  with_alt (c03_dsps_core ds A impl_data impl_samples)
           (fun _ => c03_dsps_core (sort_steps ds) A impl_data impl_samples).
Definition c03_dweights_core (ds : list deriv) (auto : bool) (U V : list (list Q))
           (impl_array : list mat) (impl_data : list Q) (impl_samples : list (list Q)) : nat :=
  let a := derive ds ([], U, V) in
  let '(_, U', V') := a in c03_weights_case (arrs_np a) auto U' V' impl_array impl_data impl_samples.
Definition c03_dweights_case ds auto U V impl_array impl_data impl_samples : nat :=
  with_alt (c03_dweights_core ds auto U V impl_array impl_data impl_samples)
           (fun _ => c03_dweights_core (sort_steps ds) auto U V impl_array impl_data impl_samples).
Definition c03_dnc_core (ds : list deriv) (auto : bool) (C : list mat) (U V : list (list Q))
           (impl_data : list oq) (impl_samples : list (list oq)) : nat :=
  let a := derive ds (C, U, V) in
  let '(C', U', V') := a in c03_nc_case (arrs_np a) auto C' U' V' impl_data impl_samples.
Definition c03_dnc_case ds auto C U V impl_data impl_samples : nat :=
  with_alt (c03_dnc_core ds auto C U V impl_data impl_samples)
           (fun _ => c03_dnc_core (sort_steps ds) auto C U V impl_data impl_samples).
