(* C02 — "a catalog reopened from its cache directory holds the same records": the directory it is reopened FROM.
   A file system maps locations to caches; a cache holds its records and (in the variant) the location it was created at.
   Moving / renaming / copying a cache changes where it is, not what it holds. *)
From Coq Require Import List Arith Bool.
Import ListNotations.

Section Relocate.
  Context {R : Type}.                                   (* the per-patch record sets *)
  Record cache := { records : R; created_at : nat }.
  Definition fs := nat -> option cache.

  Definition create (f : fs) (p : nat) (r : R) : fs :=
    fun q => if Nat.eqb q p then Some {| records := r; created_at := p |} else f q.
  Definition move (f : fs) (p q : nat) : fs :=
    fun x => if Nat.eqb x q then f p else if Nat.eqb x p then None else f x.
  Definition copy (f : fs) (p q : nat) : fs :=
    fun x => if Nat.eqb x q then f p else f x.

  (* Catalog(path): read the patches below the path given NOW *)
  Definition reopen (f : fs) (p : nat) : option R := option_map records (f p).
  (* a variant that keeps, inside the cache, the paths the patches were created with, and follows them *)
  Definition reopen_stored (f : fs) (p : nat) : option R :=
    match f p with
    | Some c => option_map records (f (created_at c))
    | None => None
    end.
End Relocate.
