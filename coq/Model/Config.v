(* Model of the configuration package (C15):
     config/combined.py  Configuration.create / modify / from_dict / to_dict / __eq__
     config/binning.py   BinningConfig.create / modify / from_dict / to_dict / __eq__
     config/scales.py    ScalesConfig.__init__ / modify (= BaseConfig.modify) / __eq__
     cosmology.py        RedshiftBinningFactory.linear / comoving / logspace,
                         Scales._set_scales, Angular/Physical/ComovingScales._compute_angle
     binning.py          parse_binning
   Every function that had a defect on the pinned commit (462b5d4) takes a flag [fx]:
     fx = false : the code of the pinned commit (the CURRENT-at-design-time model; _refuted lemmas)
     fx = true  : the repaired algorithm = the code of /repo after the fix commits named below
                  (the theorems are about this one)
   The defect sites and the commits of /repo that repaired them:
     config_eq        F14  ScalesConfig.__eq__ read rbin_num                        05ef9f8
     factory_cosmo    F15  modify dropped / did not parse the cosmology             48c9138
     modify_binning   F20  KeyError on custom edges                                 51a2e35
     mapped           F19  end points of comoving / logspace edges mapped back
                           instead of assigned (the repaired comoving factory never
                           inverts the end points, so zmin = 0 works: snapped_point
                           does not consult Dinv at i = 0 and i = n)        53b0b79, 5c1897f
     from_dict             custom edges not restorable from to_dict()               cd08e63
     parse_cosmology       CustomCosmology instances refused with TypeError  6ce6785 (97829cc:
                           float-returning custom comoving_distance in the comoving factory)

   Two further axes, at the end of the file:
     interpreter modes     guards / create_g: every numeric validation as a site that is a raise
                           statement or an assert / `if __debug__` block, dbg = __debug__ (python -O)
     python types          linear_edges_prec: the grid computed in the precision of the type of the
                           limits (F26, numpy.float32 limits, repaired in 18c893e; F27, float32
                           scale limits, 3e8b370, is the same defect in Scales._set_scales)

   ORACLES (Section Context below, nothing else is assumed):
     Dc  cos z : comoving distance D_C(z) [Mpc] of cosmology number cos
                 (cosmology.comoving_distance)
     Dci cos d : the redshift astropy's root finder returns for distance d
                 (z_at_value(cosmology.comoving_distance, d))
     Lg z      : ln(1+z)           (np.log(1.0 + z))
     Ex x      : e^x - 1           (np.logspace(x, x, 1, base=e) - 1.0)
   In the correspondence shards these four are finite tables of values evaluated by the
   implementation's own cosmology objects / numpy (tab_fun, tab2_fun at the end of this file).
   The distances D_A(z), D_C(z) used by _compute_angle and the float value of pi/180 are plain
   arguments of [angle].
   Executable definitions only; proofs are in Proofs/ConfigP.v. *)
From Verif Require Import Prelude.
Open Scope Q_scope.

(* ------------------------------------------------------------------ enums *)
Inductive method := MLinear | MComoving | MLogspace | MCustom | MUnknown.
Inductive closed_t := ClRight | ClLeft | ClUnknown.
Inductive unit_t := Ukpc | UMpc | Urad | Udeg | Uarcmin | Uarcsec | Ukpc_h | UMpc_h | UUnknown.
(* the ways a cosmology can be handed to create/modify; numbers identify cosmologies
   (0 = the default, Planck15) *)
Inductive cosmo_arg :=
| CosNone                 (* None: replaced by the default *)
| CosName (id : nat)      (* name of a predefined astropy cosmology (a string) *)
| CosObj (id : nat)       (* an astropy FLRW instance *)
| CosCustom (id : nat)    (* an instance of a yaw.cosmology.CustomCosmology subclass *)
| CosBadName              (* a string that names no astropy cosmology *)
| CosBadType.             (* any other object *)

Definition method_eqb (a b : method) : bool :=
  match a, b with
  | MLinear, MLinear | MComoving, MComoving | MLogspace, MLogspace
  | MCustom, MCustom | MUnknown, MUnknown => true
  | _, _ => false
  end.
Definition closed_eqb (a b : closed_t) : bool :=
  match a, b with ClRight, ClRight | ClLeft, ClLeft | ClUnknown, ClUnknown => true | _, _ => false end.
Definition unit_eqb (a b : unit_t) : bool :=
  match a, b with
  | Ukpc, Ukpc | UMpc, UMpc | Urad, Urad | Udeg, Udeg | Uarcmin, Uarcmin | Uarcsec, Uarcsec
  | Ukpc_h, Ukpc_h | UMpc_h, UMpc_h | UUnknown, UUnknown => true
  | _, _ => false
  end.

(* ------------------------------------------------------------------ outcomes *)
(* Rejected = a deliberate refusal (ConfigError / ValueError / TypeError from a type check);
   Crashed  = an exception that is a defect of the code, not a verdict on the parameters *)
Inductive crash := KeyErr | AttrErr | TypeErr.
Inductive outcome (A : Type) := Ok (a : A) | Rejected | Crashed (k : crash).
Arguments Ok {A} a.
Arguments Rejected {A}.
Arguments Crashed {A} k.
Definition bind {A B} (x : outcome A) (f : A -> outcome B) : outcome B :=
  match x with Ok a => f a | Rejected => Rejected | Crashed k => Crashed k end.
Notation "x <- e1 ;; e2" := (bind e1 (fun x => e2)) (at level 61, e1 at next level, right associativity).

Definition default {A} (d : A) (o : option A) : A := match o with Some x => x | None => d end.
Definition is_some {A} (o : option A) : bool := match o with Some _ => true | None => false end.
Definition opt_eqb {A} (e : A -> A -> bool) (a b : option A) : bool :=
  match a, b with Some x, Some y => e x y | None, None => true | _, _ => false end.

(* ------------------------------------------------------------------ records *)
(* keyword arguments of Configuration.create; None = argument not given *)
Record params := mkParams {
  p_rmin : list Q; p_rmax : list Q;          (* a scalar is a list of length 1 *)
  p_unit : option unit_t;                    (* default kpc *)
  p_rweight : option Q; p_resolution : option Z;
  p_zmin : option Q; p_zmax : option Q;
  p_num_bins : option nat;                   (* default 30 *)
  p_method : option method;                  (* default linear *)
  p_edges : option (list Q);
  p_closed : option closed_t;                (* default right *)
  p_cosmo : cosmo_arg;                       (* not given = CosName 0 *)
  p_workers : option nat }.

(* keyword arguments of Configuration.modify; None = NotSet *)
Record mods := mkMods {
  m_rmin : option (list Q); m_rmax : option (list Q); m_unit : option unit_t;
  m_rweight : option (option Q); m_resolution : option (option Z);
  m_zmin : option Q; m_zmax : option Q; m_num_bins : option nat; m_method : option method;
  m_edges : option (list Q); m_closed : option closed_t;
  m_cosmo : option cosmo_arg; m_workers : option (option nat) }.

Record scales := mkScales {
  s_rmin : list Q; s_rmax : list Q; s_unit : unit_t; s_rweight : option Q; s_resolution : option Z }.
Record binning := mkBinning { b_edges : list Q; b_method : method; b_closed : closed_t }.
Record config := mkConfig {
  c_scales : scales; c_binning : binning; c_cosmo : nat; c_workers : option nat }.

(* ------------------------------------------------------------------ bin edges *)
Definition qn (i : nat) : Q := inject_Z (Z.of_nat i).

(* np.linspace(a, b, n + 1): step = (b - a)/n, y_i = a + i*step, and y_n := b *)
Definition lin_step (a b : Q) (n : nat) : Q := (b - a) / qn n.
Definition lin_point (a b : Q) (n i : nat) : Q :=
  if (i =? 0)%nat then a else if (i =? n)%nat then b else a + qn i * lin_step a b n.
Definition linear_edges (a b : Q) (n : nat) : list Q := map (lin_point a b n) (seq 0 (S n)).

(* a grid that is linear in D(z) and mapped back with Dinv: comoving and logspace.
   Pinned commit (F19): every point is mapped back, the end points included. *)
Definition mapped_edges (D Dinv : Q -> Q) (a b : Q) (n : nat) : list Q :=
  map Dinv (linear_edges (D a) (D b) n).
(* repaired: edges[0], edges[-1] = min, max after the mapping (in this order) *)
Definition snapped_point (D Dinv : Q -> Q) (a b : Q) (n i : nat) : Q :=
  if (i =? n)%nat then b else if (i =? 0)%nat then a else Dinv (lin_point (D a) (D b) n i).
Definition snapped_edges (D Dinv : Q -> Q) (a b : Q) (n : nat) : list Q :=
  map (snapped_point D Dinv a b n) (seq 0 (S n)).
Definition mapped (fx : bool) (D Dinv : Q -> Q) (a b : Q) (n : nat) : list Q :=
  if fx then snapped_edges D Dinv a b n else mapped_edges D Dinv a b n.

(* parse_binning: one-dimensional, at least two edges, np.diff > 0 everywhere *)
Fixpoint strict_incb (l : list Q) : bool :=
  match l with
  | x :: ((y :: _) as r) => Qltb x y && strict_incb r
  | _ => true
  end.
Definition valid_edges (l : list Q) : bool := (2 <=? length l)%nat && strict_incb l.

Definition zmin_of (b : binning) : Q := hd 0 (b_edges b).       (* BinningConfig.zmin *)
Definition zmax_of (b : binning) : Q := last (b_edges b) 0.     (* BinningConfig.zmax *)
Definition nbins_of (b : binning) : nat := (length (b_edges b) - 1)%nat.

(* ------------------------------------------------------------------ scales *)
(* Scales._set_scales: equal lengths and rmax - rmin > 0 for every scale *)
Definition scales_valid (rmin rmax : list Q) : bool :=
  (length rmin =? length rmax)%nat && forallb (fun p => Qltb (fst p) (snd p)) (combine rmin rmax).

(* ScalesConfig.__init__ (new_scales: Unit(unit), then the Scales subclass) *)
Definition create_scales (rmin rmax : list Q) (u : option unit_t) (rw : option Q) (res : option Z)
  : outcome scales :=
  match default Ukpc u with
  | UUnknown => Rejected
  | u' => if scales_valid rmin rmax then Ok (mkScales rmin rmax u' rw res) else Rejected
  end.

(* _compute_angle, per unit.  pi180 = the float pi/180 np.deg2rad multiplies with,
   DA = angular diameter distance [Mpc], DC = TRANSVERSE comoving distance [Mpc] at the redshift - the distance measure
   options.Unit documents for kpc/h and Mpc/h; it equals the line-of-sight comoving distance only without curvature
   (the pinned code divided by the line-of-sight distance: F31).
   (the code applies no factor h for kpc/h and Mpc/h: the number is divided by the distance in Mpc) *)
Definition angle (u : unit_t) (pi180 DA DC r : Q) : Q :=
  match u with
  | Urad => r
  | Udeg => r * pi180
  | Uarcmin => (r / 60) * pi180
  | Uarcsec => (r / 3600) * pi180
  | Ukpc => (r / 1000) / DA
  | UMpc => r / DA
  | Ukpc_h => (r / 1000) / DC
  | UMpc_h => r / DC
  | UUnknown => 0
  end.
(* the specification: r times the unit's factor, divided by the unit's distance measure *)
Definition unit_factor (u : unit_t) (pi180 : Q) : Q :=
  match u with
  | Urad => 1 | Udeg => pi180 | Uarcmin => pi180 / 60 | Uarcsec => pi180 / 3600
  | Ukpc | Ukpc_h => 1 / 1000 | UMpc | UMpc_h => 1 | UUnknown => 0
  end.
Definition unit_dist (u : unit_t) (DA DC : Q) : Q :=
  match u with Ukpc | UMpc => DA | Ukpc_h | UMpc_h => DC | _ => 1 end.
Definition angle_spec (u : unit_t) (pi180 DA DC r : Q) : Q := r * unit_factor u pi180 / unit_dist u DA DC.

(* Configuration.__init__: int(max_workers) if max_workers else None *)
Definition norm_workers (w : option nat) : option nat := match w with Some O => None | x => x end.

(* ------------------------------------------------------------------ equality *)
Definition binning_eqb (a b : binning) : bool :=
  method_eqb (b_method a) (b_method b) && qlist_eqb (b_edges a) (b_edges b) && closed_eqb (b_closed a) (b_closed b).
Definition scales_eqb (a b : scales) : bool :=
  qlist_eqb (s_rmin a) (s_rmin b) && qlist_eqb (s_rmax a) (s_rmax b) && unit_eqb (s_unit a) (s_unit b)
  && opt_eqb Qeqb (s_rweight a) (s_rweight b) && opt_eqb Z.eqb (s_resolution a) (s_resolution b).
Definition config_eqb (a b : config) : bool :=
  binning_eqb (c_binning a) (c_binning b) && scales_eqb (c_scales a) (c_scales b) && (c_cosmo a =? c_cosmo b)%nat.

(* Configuration.__eq__ = binning == and scales == and cosmology_is_equal, left to right with
   short circuit.  ScalesConfig.__eq__ compares rmin, rmax, unit, rweight and then reads
   self.rbin_num, an attribute that does not exist (F14): AttributeError as soon as everything
   before it is equal.  Repaired: compares resolution. *)
Definition config_eq (fx : bool) (a b : config) : outcome bool :=
  if negb (binning_eqb (c_binning a) (c_binning b)) then Ok false else
  let sa := c_scales a in let sb := c_scales b in
  if negb (qlist_eqb (s_rmin sa) (s_rmin sb)) then Ok false else
  if negb (qlist_eqb (s_rmax sa) (s_rmax sb)) then Ok false else
  if negb (unit_eqb (s_unit sa) (s_unit sb)) then Ok false else
  if negb (opt_eqb Qeqb (s_rweight sa) (s_rweight sb)) then Ok false else
  if fx then
    if negb (opt_eqb Z.eqb (s_resolution sa) (s_resolution sb)) then Ok false
    else Ok (c_cosmo a =? c_cosmo b)%nat
  else Crashed AttrErr.                                                      (* F14 *)

(* parse_cosmology.  Pinned commit: isinstance(cosmology, get_args(TypeCosmology)) raised TypeError
   for every object that is not an FLRW instance, because the second member of the Union was a
   forward reference (a string): a CustomCosmology instance was refused, any other object was
   refused too (which is right, if by accident).  Repaired: the Union holds the class. *)
Definition parse_cosmology (fx : bool) (a : cosmo_arg) : outcome nat :=
  match a with
  | CosNone => Ok 0%nat
  | CosName id => Ok id
  | CosObj id => Ok id
  | CosCustom id => if fx then Ok id else Crashed TypeErr
  | CosBadName => Rejected
  | CosBadType => Rejected
  end.

(* ================================================================== *)
Section Oracles.
Context (Dc : nat -> Q -> Q) (Dci : nat -> Q -> Q) (Lg Ex : Q -> Q).

Definition comoving_edges (fx : bool) (cos : nat) (a b : Q) (n : nat) : list Q := mapped fx (Dc cos) (Dci cos) a b n.
Definition logspace_edges (fx : bool) (a b : Q) (n : nat) : list Q := mapped fx Lg Ex a b n.

(* RedshiftBinningFactory(cosmology).get_method(method): BinMethodAuto(method) *)
Definition gen_edges (fx : bool) (cos : nat) (m : method) (a b : Q) (n : nat) : option (list Q) :=
  match m with
  | MLinear => Some (linear_edges a b n)
  | MComoving => Some (comoving_edges fx cos a b n)
  | MLogspace => Some (logspace_edges fx a b n)
  | MCustom | MUnknown => None
  end.

(* Binning(edges, closed) inside BinningConfig *)
Definition mk_binning (e : list Q) (m : method) (cl : closed_t) : outcome binning :=
  if valid_edges e then Ok (mkBinning e m cl) else Rejected.

(* BinningConfig.create *)
Definition create_binning (fx : bool) (cos : nat) (zmin zmax : option Q) (nb : option nat) (m : option method)
           (edges : option (list Q)) (cl : option closed_t) : outcome binning :=
  let cl := default ClRight cl in
  match zmin, zmax with
  | Some a, Some b =>                        (* generate; edges, if given, are ignored *)
      match cl with
      | ClUnknown => Rejected
      | _ => match gen_edges fx cos (default MLinear m) a b (default 30%nat nb) with
             | None => Rejected
             | Some e => mk_binning e (default MLinear m) cl
             end
      end
  | _, _ =>
      match edges with
      | None => Rejected                     (* "either 'edges' or 'zmin' and 'zmax' are required" *)
      | Some e => match cl with ClUnknown => Rejected | _ => mk_binning e MCustom cl end
      end
  end.

(* Configuration.create *)
Definition create (fx : bool) (p : params) : outcome config :=
  cos <- parse_cosmology fx (p_cosmo p) ;;
  s <- create_scales (p_rmin p) (p_rmax p) (p_unit p) (p_rweight p) (p_resolution p) ;;
  b <- create_binning fx cos (p_zmin p) (p_zmax p) (p_num_bins p) (p_method p) (p_edges p) (p_closed p) ;;
  Ok (mkConfig s b cos (norm_workers (p_workers p))).

(* ------------------------------------------------------------------ modify: two code paths *)
(* path 1, ScalesConfig.modify = BaseConfig.modify: to_dict, dict.update with the entries
   that are set, from_dict = create *)
Definition modify_scales (s : scales) (m : mods) : outcome scales :=
  create_scales (default (s_rmin s) (m_rmin m)) (default (s_rmax s) (m_rmax m))
                (Some (default (s_unit s) (m_unit m)))
                (default (s_rweight s) (m_rweight m)) (default (s_resolution s) (m_resolution m)).

(* the cosmology the edge factory sees inside BinningConfig.modify.  Configuration.modify hands
   its own *argument* down (F15): NotSet and None are falsy, so the factory takes the default
   cosmology whatever the configuration holds; a string is handed down unparsed and the
   comoving factory then calls "WMAP9".comoving_distance (AttributeError).
   Repaired: the parsed argument, or the configuration's own cosmology when not given. *)
Definition factory_cosmo (fx : bool) (own : nat) (arg : option cosmo_arg) (m : method) : outcome nat :=
  if fx then match arg with None => Ok own | Some a => parse_cosmology true a end
  else match arg with
       | None | Some CosNone => Ok 0%nat                                      (* F15 *)
       | Some (CosObj id) | Some (CosCustom id) => Ok id
       | Some (CosName _) | Some CosBadName | Some CosBadType =>
           match m with MComoving => Crashed AttrErr | _ => Ok 0%nat end      (* F15 *)
       end.

(* path 2, BinningConfig.modify: explicit re-dispatch + BinningConfig.from_dict.
   Without `edges` the dictionary holds zmin/zmax/num_bins/method/closed and no "edges" key;
   from_dict takes its custom branch when method == custom and pops "edges": KeyError (F20)
   for EVERY modify of a custom-edges configuration that does not pass new edges.
   Repaired: the existing edges are carried over. *)
Definition modify_binning (fx : bool) (own : nat) (b : binning) (m : mods) : outcome binning :=
  let cl := default (b_closed b) (m_closed m) in
  match m_edges m with
  | Some e =>                              (* {edges, method: custom, closed}; zmin.. ignored *)
      match cl with ClUnknown => Rejected | _ => mk_binning e MCustom cl end
  | None =>
      match m_method m with
      | Some MCustom => Rejected           (* "'method' is 'custom' but no bin edges provided" *)
      | Some MUnknown => Rejected          (* BinMethod(method) *)
      | _ =>
          let meth := default (b_method b) (m_method m) in
          match cl with
          | ClUnknown => Rejected
          | _ =>
              match meth with
              | MCustom => if fx then mk_binning (b_edges b) MCustom cl else Crashed KeyErr   (* F20 *)
              | _ =>
                  cos <- factory_cosmo fx own (m_cosmo m) meth ;;
                  create_binning fx cos (Some (default (zmin_of b) (m_zmin m)))
                                 (Some (default (zmax_of b) (m_zmax m)))
                                 (Some (default (nbins_of b) (m_num_bins m)))
                                 (Some meth) None (Some cl)
              end
          end
      end
  end.

(* Configuration.modify: scales, binning, then the cosmology and max_workers *)
Definition modify (fx : bool) (c : config) (m : mods) : outcome config :=
  s <- modify_scales (c_scales c) m ;;
  b <- modify_binning fx (c_cosmo c) (c_binning c) m ;;
  cos <- match m_cosmo m with None => Ok (c_cosmo c) | Some a => parse_cosmology fx a end ;;
  Ok (mkConfig s b cos (norm_workers (default (c_workers c) (m_workers m)))).

(* ------------------------------------------------------------------ modify: the specification *)
(* the parameters a configuration stands for (its public properties) *)
Definition to_params (c : config) : params :=
  let s := c_scales c in let b := c_binning c in
  let custom := method_eqb (b_method b) MCustom in
  mkParams (s_rmin s) (s_rmax s) (Some (s_unit s)) (s_rweight s) (s_resolution s)
           (if custom then None else Some (zmin_of b)) (if custom then None else Some (zmax_of b))
           (Some (nbins_of b)) (Some (b_method b))
           (if custom then Some (b_edges b) else None) (Some (b_closed b))
           (CosObj (c_cosmo c)) (c_workers c).

(* merged parameters: every value that is set replaces the configuration's value; new edges
   make the binning custom; a configuration with custom edges keeps them unless a generating
   method is named, in which case its first/last edge and bin count are the zmin/zmax/num_bins *)
Definition overlay (c : config) (m : mods) : outcome params :=
  let s := c_scales c in let b := c_binning c in
  let mk zmin zmax nb meth edges :=
    mkParams (default (s_rmin s) (m_rmin m)) (default (s_rmax s) (m_rmax m))
             (Some (default (s_unit s) (m_unit m)))
             (default (s_rweight s) (m_rweight m)) (default (s_resolution s) (m_resolution m))
             zmin zmax nb meth edges (Some (default (b_closed b) (m_closed m)))
             (default (CosObj (c_cosmo c)) (m_cosmo m)) (default (c_workers c) (m_workers m)) in
  match m_edges m with
  | Some e => Ok (mk None None None (Some MCustom) (Some e))
  | None =>
      match m_method m with
      | Some MCustom => Rejected
      | _ =>
          let meth := default (b_method b) (m_method m) in
          match meth with
          | MCustom => Ok (mk None None None (Some MCustom) (Some (b_edges b)))
          | _ => Ok (mk (Some (default (zmin_of b) (m_zmin m))) (Some (default (zmax_of b) (m_zmax m)))
                        (Some (default (nbins_of b) (m_num_bins m))) (Some meth) None)
          end
      end
  end.
Definition modify_spec (c : config) (m : mods) : outcome config := p <- overlay c m ;; create true p.

(* ------------------------------------------------------------------ to_dict / from_dict *)
Record cdict := mkDict {
  d_rmin : list Q; d_rmax : list Q; d_unit : unit_t; d_rweight : option Q; d_resolution : option Z;
  d_method : method; d_zmin : option Q; d_zmax : option Q; d_num_bins : option nat;
  d_edges : option (list Q); d_closed : closed_t; d_cosmo : cosmo_arg; d_workers : option nat }.

(* Configuration.to_dict (cosmology_to_yaml refuses custom cosmologies; numbers below 100 are
   the named astropy cosmologies in this model, see [cosmo_named]) *)
Definition cosmo_named (id : nat) : bool := (id <? 100)%nat.
Definition to_dict (c : config) : outcome cdict :=
  let s := c_scales c in let b := c_binning c in
  let custom := method_eqb (b_method b) MCustom in
  if cosmo_named (c_cosmo c) then
    Ok (mkDict (s_rmin s) (s_rmax s) (s_unit s) (s_rweight s) (s_resolution s) (b_method b)
               (if custom then None else Some (zmin_of b)) (if custom then None else Some (zmax_of b))
               (if custom then None else Some (nbins_of b))
               (if custom then Some (b_edges b) else None) (b_closed b) (CosName (c_cosmo c)) (c_workers c))
  else Rejected.

(* Configuration.from_dict on a dictionary produced by to_dict.  BinningConfig.from_dict, custom
   branch: cls(binning, **the_dict) with the leftover keys zmin/zmax/num_bins -> TypeError,
   reported as ConfigError "failed parsing the 'binning' section" (new finding): a custom-edges
   configuration cannot be restored from its own dictionary.  Repaired: Binning(edges, closed). *)
Definition from_dict (fx : bool) (d : cdict) : outcome config :=
  cos <- parse_cosmology fx (d_cosmo d) ;;
  s <- create_scales (d_rmin d) (d_rmax d) (Some (d_unit d)) (d_rweight d) (d_resolution d) ;;
  b <- (if method_eqb (d_method d) MCustom || is_some (d_edges d)
        then if fx then match d_edges d with
                        | Some e => match d_closed d with ClUnknown => Rejected | cl => mk_binning e MCustom cl end
                        | None => Rejected
                        end
             else Rejected
        else create_binning fx cos (d_zmin d) (d_zmax d) (d_num_bins d) (Some (d_method d)) (d_edges d)
                            (Some (d_closed d))) ;;
  Ok (mkConfig s b cos (norm_workers (d_workers d))).

Definition roundtrip (fx : bool) (c : config) : outcome config := d <- to_dict c ;; from_dict fx d.

(* ------------------------------------------------------------------ validity, independent of create *)
Definition cosmo_bad (a : cosmo_arg) : bool := match a with CosBadName | CosBadType => true | _ => false end.
Definition params_invalid (p : params) : bool :=
  cosmo_bad (p_cosmo p)
  || unit_eqb (default Ukpc (p_unit p)) UUnknown
  || negb (scales_valid (p_rmin p) (p_rmax p))
  || closed_eqb (default ClRight (p_closed p)) ClUnknown
  || match p_zmin p, p_zmax p with
     | Some a, Some b =>
         Qleb b a                                           (* zmin >= zmax *)
         || (default 30%nat (p_num_bins p) =? 0)%nat
         || match default MLinear (p_method p) with MCustom | MUnknown => true | _ => false end
     | _, _ => match p_edges p with
               | None => true                               (* neither edges nor zmin and zmax *)
               | Some e => negb (valid_edges e)             (* non-increasing or fewer than two *)
               end
     end.

End Oracles.

(* ------------------------------------------------------------------ a store of objects, for purity *)
(* python objects live in a store; modify allocates the new configuration at a fresh address *)
Definition store := list config.
Definition modify_st (Dc Dci : nat -> Q -> Q) (Lg Ex : Q -> Q) (fx : bool) (st : store) (r : nat) (m : mods)
  : store * outcome nat :=
  match nth_error st r with
  | None => (st, Rejected)
  | Some c => match modify Dc Dci Lg Ex fx c m with
              | Ok c' => (st ++ [c'], Ok (length st))
              | Rejected => (st, Rejected)
              | Crashed k => (st, Crashed k)
              end
  end.

(* ================================================================== correspondence checkers *)
(* oracle tables supplied by the harness: the entry whose key is within 2^-20 (relative) *)
Definition tol20 : Q := 1 # 1048576.
Fixpoint tab_fun (t : list (Q * Q)) (x : Q) : Q :=
  match t with
  | [] => 0
  | (k, v) :: r => if Qeqb x k || Qclose tol20 x k then v else tab_fun r x
  end.
Fixpoint tab2_fun (t : list (nat * list (Q * Q))) (c : nat) (x : Q) : Q :=
  match t with
  | [] => 0
  | (k, tb) :: r => if (k =? c)%nat then tab_fun tb x else tab2_fun r c x
  end.
Record tables := mkTables {
  t_D : list (nat * list (Q * Q)); t_Di : list (nat * list (Q * Q)); t_L : list (Q * Q); t_E : list (Q * Q) }.
Definition create_t (t : tables) := create (tab2_fun (t_D t)) (tab2_fun (t_Di t)) (tab_fun (t_L t)) (tab_fun (t_E t)).
Definition modify_t (t : tables) := modify (tab2_fun (t_D t)) (tab2_fun (t_Di t)) (tab_fun (t_L t)) (tab_fun (t_E t)).
Definition modify_spec_t (t : tables) := modify_spec (tab2_fun (t_D t)) (tab2_fun (t_Di t)) (tab_fun (t_L t)) (tab_fun (t_E t)).
Definition roundtrip_t (t : tables) := roundtrip (tab2_fun (t_D t)) (tab2_fun (t_Di t)) (tab_fun (t_L t)) (tab_fun (t_E t)).

(* what the harness saw *)
Inductive exn := ExConfig | ExValue | ExType | ExKey | ExAttr | ExOther.
Inductive obs (A : Type) := OOk (a : A) | ORaised (e : exn).
Arguments OOk {A} a.
Arguments ORaised {A} e.
Definition is_raised {A} (o : obs A) : bool := match o with ORaised _ => true | _ => false end.

(* edges: custom exactly; linear to 2^-48 (np.linspace rounds i*step); comoving and logspace
   to 2^-20 (the oracle tables are looked up by proximity) *)
Definition edges_close (m : method) (a b : list Q) : bool :=
  match m with
  | MCustom => qlist_eqb a b
  | MLinear => list_eqb (fun x y => Qeqb x y || Qclose tol48 x y) a b
  | _ => list_eqb (fun x y => Qeqb x y || Qclose tol20 x y) a b
  end.
Definition config_close (a b : config) : bool :=
  let ba := c_binning a in let bb := c_binning b in
  method_eqb (b_method ba) (b_method bb) && closed_eqb (b_closed ba) (b_closed bb)
  && edges_close (b_method ba) (b_edges ba) (b_edges bb)
  && scales_eqb (c_scales a) (c_scales b) && (c_cosmo a =? c_cosmo b)%nat
  && opt_eqb Nat.eqb (c_workers a) (c_workers b).
(* bit-for-bit *)
Definition config_same (a b : config) : bool :=
  config_eqb a b && opt_eqb Nat.eqb (c_workers a) (c_workers b).

Definition agree (mo : outcome config) (o : obs config) : bool :=
  match mo, o with
  | Ok c, OOk c' => config_close c c'
  | Rejected, ORaised _ => true          (* refused by raising; the class is not compared *)
  | Crashed KeyErr, ORaised ExKey => true
  | Crashed AttrErr, ORaised ExAttr => true
  | Crashed TypeErr, ORaised ExType => true
  | _, _ => false
  end.
Definition obs_close (a b : obs config) : bool :=
  match a, b with
  | OOk x, OOk y => config_close x y
  | ORaised _, ORaised _ => true
  | _, _ => false
  end.
Definition obs_same (a b : obs config) : bool :=
  match a, b with
  | OOk x, OOk y => config_same x y
  | ORaised _, ORaised _ => true
  | _, _ => false
  end.

Definition generated (p : params) : bool := is_some (p_zmin p) && is_some (p_zmax p).

(* the grid property of the generated edges, evaluated on the implementation's edges:
   fvals = D(e_i) (comoving: D_C of the configured cosmology; logspace: ln(1+e_i); linear: e_i)
   as evaluated by the harness; they must be the linear grid between f(zmin) and f(zmax) *)
Definition grid_ok (flo fhi : Q) (n : nat) (fvals : list Q) (tol : Q) : bool :=
  list_eqb (fun x y => Qeqb x y || Qclose tol x y) fvals (linear_edges flo fhi n).

(* create: flags
   0 the implementation agrees with the repaired model
   1 the implementation agrees with the current model
   2 generated: num_bins + 1 edges
   3 at least two edges, strictly increasing
   4 generated: first edge = zmin and last edge = zmax, exactly
   5 invalid parameters are refused by raising
   6 valid parameters are accepted (valid = not params_invalid)
   7 generated: f(edges) is the linear grid between f(zmin) and f(zmax) *)
Definition c15_create_case (t : tables) (p : params) (o : obs config) (flo fhi : Q) (fvals : list Q) : nat :=
  let inv := params_invalid p in
  let gen := generated p in
  match o with
  | ORaised _ =>
      code [agree (create_t t true p) o; agree (create_t t false p) o; true; true; true; true; inv; true]
  | OOk c =>
      let e := b_edges (c_binning c) in
      let n := default 30%nat (p_num_bins p) in
      code [agree (create_t t true p) o; agree (create_t t false p) o;
            negb gen || (length e =? n + 1)%nat;
            valid_edges e;
            negb gen || (Qeqb (hd 0 e) (default 0 (p_zmin p)) && Qeqb (last e 0) (default 0 (p_zmax p)));
            negb inv; true;
            negb gen || grid_ok flo fhi n fvals
                          (match b_method (c_binning c) with MLinear => tol48 | _ => tol20 end)]
  end.

(* modify: flags
   0 modify agrees with the repaired model (= create of the merged parameters, theorem
     modify_is_create_merge), starting from the model's configuration for p
   1 modify agrees with the current model
   2 the original configuration is unchanged, bit for bit
   3 the implementation's own create(merged parameters) is what modify returned
   4 the model's modify and modify_spec coincide on this input (instance of the theorem)
   5 the implementation's create(p) agrees with the model (the starting point is common) *)
Definition c15_modify_case (t : tables) (p : params) (m : mods)
           (o_create o_modify o_after o_fresh : obs config) : nat :=
  match create_t t true p with
  | Ok c =>
      code [agree (modify_t t true c m) o_modify;
            agree (modify_t t false c m) o_modify;
            obs_same o_create o_after;
            obs_close o_fresh o_modify;
            match modify_t t true c m, modify_spec_t t c m with
            | Ok x, Ok y => config_same x y
            | Rejected, Rejected => true
            | _, _ => false
            end;
            agree (Ok c) o_create]
  | _ => 63%nat
  end.

(* ==: flags
   0 the outcome is the repaired model's  1 the outcome is the current model's
   2 configurations built from the same parameters compare equal *)
Inductive eq_obs := EqTrue | EqFalse | EqRaised (e : exn).
Definition eq_agree (mo : outcome bool) (o : eq_obs) : bool :=
  match mo, o with
  | Ok true, EqTrue | Ok false, EqFalse => true
  | Crashed AttrErr, EqRaised ExAttr => true
  | _, _ => false
  end.
Definition c15_eq_case (t : tables) (pa pb : params) (same : bool) (o : eq_obs) : nat :=
  match create_t t true pa, create_t t true pb with
  | Ok a, Ok b =>
      code [eq_agree (config_eq true a b) o; eq_agree (config_eq false a b) o;
            negb same || match o with EqTrue => true | _ => false end]
  | _, _ => 7%nat
  end.

(* from_dict(to_dict(c)): flags
   0 agrees with the repaired model  1 agrees with the current model
   2 the restored configuration is the original one (to the oracle tolerance)
   3 ... bit for bit *)
Definition c15_roundtrip_case (t : tables) (p : params) (o_create o_rt : obs config) : nat :=
  match create_t t true p with
  | Ok c =>
      code [agree (roundtrip_t t true c) o_rt; agree (roundtrip_t t false c) o_rt;
            obs_close o_create o_rt; obs_same o_create o_rt]
  | _ => 15%nat
  end.

(* angles: flags
   0 every observed angle is [angle] of the scale (2^-48)  1 the same against [angle_spec]
   2 the factor np.deg2rad uses is pi/180 to 2^-50 *)
Definition pi_lo : Q := 3141592653589793238462643383279 # 1000000000000000000000000000000.
Definition pi_hi : Q := 3141592653589793238462643383280 # 1000000000000000000000000000000.
Definition pi180_ok (pi180 : Q) : bool :=
  let eps := 1 # 1125899906842624 in
  Qleb (pi_lo * (1 - eps)) (pi180 * 180) && Qleb (pi180 * 180) (pi_hi * (1 + eps)).
Definition c15_angle_case (u : unit_t) (pi180 DA DC : Q) (rs angles : list Q) : nat :=
  let close := list_eqb (fun x y => Qeqb x y || Qclose tol48 x y) in
  code [close angles (map (angle u pi180 DA DC) rs);
        close angles (map (angle_spec u pi180 DA DC) rs);
        pi180_ok pi180].
(* ================================================================== interpreter modes *)
(* A validation in the code is either a `raise` statement behind an `if` (GRaise) or an `assert`
   statement / a block behind `if __debug__` (GAssert).  [dbg] is the value of __debug__: true in an
   interpreter started normally, false with python -O / -OO / PYTHONOPTIMIZE >= 1, where assert
   statements and `if __debug__` blocks are compiled away.  The numeric validations the property
   demands, as sites (the lookups of method / unit / closed / cosmology names fail by themselves and
   are not guards): *)
Inductive guard_kind := GRaise | GAssert.
Record guards := mkGuards {
  g_edges_len : guard_kind;     (* parse_binning: one-dimensional, at least two edges *)
  g_edges_inc : guard_kind;     (* parse_binning: np.diff > 0 everywhere *)
  g_scales : guard_kind }.      (* Scales._set_scales: equal lengths, rmin < rmax *)
Definition all_raise : guards := mkGuards GRaise GRaise GRaise.      (* the code as it is *)
(* does the guard refuse when the condition [bad] it tests holds? *)
Definition fires (k : guard_kind) (dbg bad : bool) : bool :=
  match k with GRaise => bad | GAssert => dbg && bad end.

(* the two functions every construction path (create, modify, from_dict) funnels through *)
Definition mk_binning_g (g : guards) (dbg : bool) (e : list Q) (m : method) (cl : closed_t) : outcome binning :=
  if fires (g_edges_len g) dbg (negb (2 <=? length e)%nat) || fires (g_edges_inc g) dbg (negb (strict_incb e))
  then Rejected else Ok (mkBinning e m cl).
Definition create_scales_g (g : guards) (dbg : bool) (rmin rmax : list Q) (u : option unit_t) (rw : option Q)
           (res : option Z) : outcome scales :=
  match default Ukpc u with
  | UUnknown => Rejected
  | u' => if fires (g_scales g) dbg (negb (scales_valid rmin rmax)) then Rejected
          else Ok (mkScales rmin rmax u' rw res)
  end.

Section Modes.
Context (Dc : nat -> Q -> Q) (Dci : nat -> Q -> Q) (Lg Ex : Q -> Q).

(* BinningConfig.create / Configuration.create of the repaired code, validations as in [g] *)
Definition create_binning_g (g : guards) (dbg : bool) (cos : nat) (zmin zmax : option Q) (nb : option nat)
           (m : option method) (edges : option (list Q)) (cl : option closed_t) : outcome binning :=
  let cl := default ClRight cl in
  match zmin, zmax with
  | Some a, Some b =>
      match cl with
      | ClUnknown => Rejected
      | _ => match gen_edges Dc Dci Lg Ex true cos (default MLinear m) a b (default 30%nat nb) with
             | None => Rejected
             | Some e => mk_binning_g g dbg e (default MLinear m) cl
             end
      end
  | _, _ =>
      match edges with
      | None => Rejected
      | Some e => match cl with ClUnknown => Rejected | _ => mk_binning_g g dbg e MCustom cl end
      end
  end.
Definition create_g (g : guards) (dbg : bool) (p : params) : outcome config :=
  cos <- parse_cosmology true (p_cosmo p) ;;
  s <- create_scales_g g dbg (p_rmin p) (p_rmax p) (p_unit p) (p_rweight p) (p_resolution p) ;;
  b <- create_binning_g g dbg cos (p_zmin p) (p_zmax p) (p_num_bins p) (p_method p) (p_edges p) (p_closed p) ;;
  Ok (mkConfig s b cos (norm_workers (p_workers p))).
End Modes.

(* ================================================================== python types of the values *)
(* The parameters of the model are the numbers the arguments stand for; in which python type a number
   is handed over (float, numpy.float32, an element of a float32 array ...) is no argument of any
   function above: the result cannot depend on it.  The defect that was repaired in 18c893e (F26), as a
   model: the grid computed in the precision of the type of the limits, [rnd] = rounding to that
   precision (the limits themselves are representable: rnd a == a, rnd b == b). *)
Definition linear_edges_prec (rnd : Q -> Q) (a b : Q) (n : nat) : list Q :=
  map (fun i => if (i =? 0)%nat then a else if (i =? n)%nat then b else rnd (lin_point a b n i)) (seq 0 (S n)).
(* rounding down to multiples of 1/4 on [0, 1), a stand-in for a narrow float type *)
Definition rnd_quarter (x : Q) : Q :=
  if Qltb x 0 then x else if Qltb x (1 # 4) then 0 else if Qltb x (1 # 2) then 1 # 4
  else if Qltb x (3 # 4) then 1 # 2 else if Qltb x 1 then 3 # 4 else x.
